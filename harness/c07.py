"""
C07 — APDU fixed headers carry every field of all eight PDU types faithfully.

Correspondence streams (model = lean/Drv/C07.lean over Model.Apci):
  hdr-<t>     : the FULL cross product of flag bits x code points per PDU type with
                octet fields in {0,1,127,128,255} (quick thins only the four octet fields of
                segmented confirmed requests to a strength-2 orthogonal array; thorough runs
                all 332 800); per header four operations:
                  enc   raw APCI.encode                        (header octets)
                  aenc  typed class (built through its constructor parameters) -> APDU -> PDU
                        (+ payload)                            (observation point)
                  dec   raw APCI.decode of header+payload      (fields, what is left in
                        pdu.pduData, what APCI.decode put into self.pduData, octets consumed)
                  adec  PDU -> APDU.decode -> typed class      (fields + payload)
  hdr-loose   : headers outside WFHeader (None flags, missing / out-of-range fields,
                codes that do not fit, unknown types): same bytes or same error kind
  hdr-stale   : headers that carry, besides their own fields, every combination of flags (and
                numeric fields) of OTHER PDU types — an object with a past
  hdr-reuse   : decode a frame of type A into an APDU (or APCI.update() a fresh one from it), give it
                the type and own fields of B, encode: model = aenc of the merged attribute set
  subclass    : aenc / adec through application subclasses made at run time of the eight PDU classes,
                of the generic APDU and of five service classes one level down (WhoIs, IAm,
                ReadProperty, ReadPropertyACK, Error): plain / own _debug_contents / list attribute
                set in __init__ / __init__ with extra keyword arguments / both — every combination of
                (typed variant, generic variant); decode generic -> typed via update(), encode typed
                -> generic -> octets; the model request is the plain aenc / adec
  history     : sequences inside ONE process (8/16 workers, several sequences each, and once more in
                the main process at the very end): decode octets -> APDU -> typed object; mutate
                decoded objects' pduData the way the segmentation code does (put_data of another
                object's pduData, put, put_short, +=, extend); decode further frames; re-encode.
                Each decode / encode step is compared with the (stateless) model reply for its octets
  stack       : a real client Application/ASAP/SMAP/NSAP on a vlan (virtual time, worker processes)
                with device maxApduLengthAccepted over the six sizes and odd values,
                maxSegmentsAccepted over the code points and in-between values, the four
                segmentation modes, sending unsegmented and segmented confirmed requests to a real
                peer that is unknown / known from a cached I-Am / whose cache record is edited
                (larger and smaller limits); every confirmed-request header sniffed on the wire is
                one case: its max-segments / max-response codes against the model's
                encodeMaxSegs / encodeMaxApdu of the CLIENT's configured values
  oct-<n>     : ALL octet strings of length <= 2 (quick) / <= 3 (thorough) through dec and adec
  oct-random  : random longer strings, first octet biased to the eight types
  oct-trunc   : every strict prefix of valid frames, single-octet substitutions
  tables      : capabilities None, 0..2000 (+ large) through the two encoders, codes
                0..20 through the two decoders
Implementation-side oracle (independent of the model; only this produces failing inputs):
  * octets == clause 20.1 layout computed here in Python (expected_layout)
  * decode(encode(h) + payload) == h field by field, payload untouched, at both levels
  * arbitrary octets: header or DecodingError, nothing else; accepted exactly when the
    type nibble is known and enough octets are present (need()); consumed prefix + payload
    == input; what decodes re-encodes and decodes to the same header
  * tables equal the standard's at every code point; encoders round down, never up, pick
    the best code, are monotone; too-small capabilities refused
  * only the fields of a header's OWN type reach the wire (proj): with stale fields of another
    type set, the octets are the clause-20.1 layout of the own fields, the first octet has no bit
    the type does not define, the peer decodes exactly the own fields, encode(decode(octets)) == octets
  * history: every result depends only on ITS octets / ITS object (reference decoder ref_decode,
    expected_layout); the pduData of two decoded objects are never the same bytearray; mutating
    one object never changes another
  * stack: the codes (and SA) in every request header leaving the client are the floor code
    points of the client's own configuration, whatever the device-info cache says
  * history 'r' steps: a frame decoded into a typed object that was used before gives that
    frame's header, payload and re-encoding (all ordered pairs of 15 frames + random)
  * apdu_types registers the eight classes under their own pduType; replies built with
    `context=request` carry the request's invoke ID / service choice
Exception kinds: DecodingError -> decoding (core.exc_kind).  Encoder-side Python errors
are mapped HERE, for the encode / table operations only (they are the modelled refusals):
  TypeError / ValueError('bytes must be in range') in APCI.encode -> encoding
  ValueError('invalid APCI.apduType')                             -> other
  ValueError in a table function -> valueRange,  IndexError -> other
Everything else stays python:<Class> and never equals a model reply.
"""
import glob, importlib.util, itertools, json, os, sys
from . import core

LEAN_TARGETS = ["BacVerif.Props.C07", "drv_c07"]
LEANCHECKER = ["BacVerif.Props.C07"]
LEVEL = "proof"
RULE = ("full cross product per PDU type of flag bits x max-segments codes 0..7 x max-response codes "
        "0..15 x octet fields in {0,1,127,128,255} (thorough: 332 800 confirmed-request headers, 1 300 "
        "complex acks, 500 segment acks, ...; quick thins only the (inv,svc,seq,win) octets of segmented "
        "confirmed requests to a strength-2 orthogonal array: 25 600 headers), each through "
        "enc/aenc/dec/adec with a payload; loose headers; headers with every combination of stale flags "
        "of other PDU types, reused / APCI.update()d header objects; run-time application subclasses of the "
        "PDU classes, APDU and service classes (5 variants x 5 variants); in-process histories (decode, mutate "
        "decoded objects' pduData, decode, re-encode) in every worker and the main process; "
        "all octet strings of length <=2 (quick) / <=3 (thorough) exhaustively, random longer ones, "
        "all strict prefixes and single-octet substitutions of valid frames; capabilities None, "
        "0..2000 and large through the table encoders, codes 0..20 through the decoders. "
        "distinct = distinct (stream, op, type, flag bits, code points | result kind, type nibble, "
        "seg bit, length class | table op, result) signatures; trivial = empty input")
TRUSTED = ["lean/BacVerif/Model/Apci.lean is a hand transcription of APCI.encode/decode, APDU.encode/"
           "decode and the four table functions; tied by the hdr/oct/tables correspondence streams",
           "the two code tables and the apdu_types registry are regenerated from the live module "
           "(translator/c07.py) and compared with the model's by `decide` (py_tables_match, "
           "py_registry_match)",
           "apci_layout_* restate the model in the notation of clause 20.1 (standard's text not "
           "available offline); the harness's expected_layout() is a second, independent transcription",
           "encoder-side exception map of harness/c07.py (TypeError/ValueError -> encoding/other/"
           "valueRange, IndexError -> other) for encode and table operations only",
           "Python bytes/bytearray"]
ASSUMPTIONS = ["header attributes are None, bool (flags) or non-negative int (the property's domain); "
               "truthy non-bool flag values and negative numbers are not modelled",
               "code 7 of max-segments ('more than 64') decodes to None = no usable bound, like code 0 "
               "(DESIGN.md C07)"]

OCTETS = [0, 1, 127, 128, 255]
KEYS = ["seg", "mor", "sa", "srv", "nak", "seq", "win", "msegs", "mresp", "svc", "inv", "rsn"]
ATTR = {"seg": "apduSeg", "mor": "apduMor", "sa": "apduSA", "srv": "apduSrv", "nak": "apduNak",
        "seq": "apduSeq", "win": "apduWin", "msegs": "apduMaxSegs", "mresp": "apduMaxResp",
        "svc": "apduService", "inv": "apduInvokeID", "rsn": "apduAbortRejectReason"}
# constructor parameter -> header key, per PDU class (apdu.py: the eight __init__ signatures)
CTOR = {0: {"choice": "svc"}, 1: {"choice": "svc"}, 2: {"choice": "svc", "invokeID": "inv"},
        3: {"choice": "svc", "invokeID": "inv"},
        4: {"nak": "nak", "srv": "srv", "invokeID": "inv", "sequenceNumber": "seq", "windowSize": "win"},
        5: {"choice": "svc", "invokeID": "inv"}, 6: {"invokeID": "inv", "reason": "rsn"},
        7: {"srv": "srv", "invokeID": "inv", "reason": "rsn"}}
# the standard's tables, written here independently of bacpypes and of the Lean model
STD_SEGS = [None, 2, 4, 8, 16, 32, 64, None]
STD_LEN = [50, 128, 206, 480, 1024, 1476]
STD_TYPES = {0: "ConfirmedRequestPDU", 1: "UnconfirmedRequestPDU", 2: "SimpleAckPDU",
             3: "ComplexAckPDU", 4: "SegmentAckPDU", 5: "ErrorPDU", 6: "RejectPDU", 7: "AbortPDU"}


def _translator():
    path = os.path.join(core.VERIF, "translator", "c07.py")
    spec = importlib.util.spec_from_file_location("verif_translator_c07", path)
    mod = importlib.util.module_from_spec(spec)
    spec.loader.exec_module(mod)
    return mod


def GENERATED(ctx):
    changed = _translator().generate(core.LEAN)
    ctx.extra["generated"] = {"lean/BacVerif/Gen/ApduTables.lean": "rewritten" if changed else "unchanged"}


# ---------------------------------------------------------------- header helpers

def H(t, **kw):
    h = {"t": t}
    for k in KEYS:
        h[k] = kw.get(k)
    return h


def set_fields(obj, h):
    for k in KEYS:
        setattr(obj, ATTR[k], h[k])


def get_fields(obj):
    h = {"t": obj.apduType}
    for k in KEYS:
        h[k] = getattr(obj, ATTR[k])
    return h


def enc_exc_kind(e):
    if isinstance(e, TypeError):
        return "encoding"
    if isinstance(e, ValueError):
        return "other" if "invalid APCI.apduType" in str(e) else "encoding"
    return core.exc_kind(e)


def tbl_exc_kind(e):
    if isinstance(e, ValueError):
        return "valueRange"
    if isinstance(e, IndexError):
        return "other"
    return core.exc_kind(e)


# ---------------------------------------------------------------- application subclasses (made at run time)

SUB_VARIANTS = ["plain", "dbg", "trace", "kw", "kwdbg"]
SVC_CLASSES = {  # service classes one level below the PDU classes: (pdu type, canonical payload)
    "WhoIsRequest": (1, "0900190a"), "IAmRequest": (1, "c40200000122040091002 10f".replace(" ", "")),
    "ReadPropertyRequest": (0, "0c000000011955"), "ReadPropertyACK": (3, "0c0000000119553e44000000003f"),
    "Error": (5, "91029120")}
_sub_cache = {}


def subclass_of(base, variant):
    """an application subclass of a PDU class / APDU / service class:
       plain  adds nothing;  dbg  declares its OWN _debug_contents + an attribute (the DebugContents
       pattern npdu.py uses for every message class);  trace  the same with a list attribute set in
       __init__ ('trace+');  kw  overrides __init__ with extra keyword arguments;  kwdbg  both."""
    if variant is None:
        return base
    key = (base, variant)
    if key not in _sub_cache:
        ns = {}
        if variant == "dbg":
            ns = {"_debug_contents": ("receivedAt",), "receivedAt": None}
        elif variant == "trace":
            def __init__(self, *args, **kwargs):
                base.__init__(self, *args, **kwargs)
                self.trace = []
            ns = {"_debug_contents": ("trace+",), "__init__": __init__}
        elif variant in ("kw", "kwdbg"):
            def __init__(self, *args, stamp=None, hops=(), **kwargs):
                base.__init__(self, *args, **kwargs)
                self.stamp = stamp
                self.hops = list(hops)
            ns = {"__init__": __init__}
            if variant == "kwdbg":
                ns["_debug_contents"] = ("stamp", "hops")
        _sub_cache[key] = type("%s_%s" % (variant.capitalize(), base.__name__), (base,), ns)
    return _sub_cache[key]


def make(cls, variant, **kw):
    cls = subclass_of(cls, variant)
    if variant in ("kw", "kwdbg"):
        kw.update(stamp=12345, hops=("a", "b"))
    return cls(**kw)


# ---------------------------------------------------------------- implementation adapter

def impl(case):
    from bacpypes import apdu as A
    from bacpypes.pdu import PDU, PDUData
    op = case["op"]
    if op == "enc":
        try:
            a = A.APCI()
            a.apduType = case["h"]["t"]
            set_fields(a, case["h"])
            p = PDUData()
            a.encode(p)
            return {"r": "ok", "hex": bytes(p.pduData).hex()}
        except Exception as e:
            return {"r": "err", "k": enc_exc_kind(e)}
    if op == "aenc" and case.get("sub"):
        # typed (sub)class -> generic APDU (sub)class -> octets
        try:
            h = case["h"]
            sub = case["sub"]
            if sub.get("svc"):
                from bacpypes.primitivedata import TagList
                from bacpypes.constructeddata import Sequence
                x = make(getattr(A, sub["svc"]), sub.get("typed"))
                tl = TagList()
                tl.decode(PDUData(bytes.fromhex(case["data"])))
                Sequence.decode(x, tl)
                set_fields(x, h)
            else:
                kw = {k: h[f] for k, f in CTOR[h["t"]].items()}
                x = make(A.apdu_types[h["t"]], sub.get("typed"), **kw)
                for k in KEYS:
                    if k not in CTOR[h["t"]].values():
                        setattr(x, ATTR[k], h[k])
                x.pduData = bytearray(bytes.fromhex(case["data"]))
            apdu = make(A.APDU, sub.get("apdu"))
            x.encode(apdu)
            pdu = PDU()
            apdu.encode(pdu)
            return {"r": "ok", "hex": bytes(pdu.pduData).hex()}
        except Exception as e:
            return {"r": "err", "k": enc_exc_kind(e)}
    if op == "adec" and case.get("sub"):
        # octets -> generic APDU (sub)class -> typed (sub)class via update()
        try:
            sub = case["sub"]
            apdu = make(A.APDU, sub.get("apdu"))
            apdu.decode(PDU(bytes.fromhex(case["hex"])))
            seen = get_fields(apdu)
            base = getattr(A, sub["svc"]) if sub.get("svc") else A.apdu_types.get(apdu.apduType)
            x = make(base, sub.get("typed"))
            x.decode(apdu)
            if sub.get("svc"):
                out = A.APDU()
                x.encode(out)
                data = bytes(out.pduData)
            else:
                data = bytes(x.pduData)
            rep = {"r": "ok", "h": get_fields(x), "data": data.hex()}
            if seen != rep["h"]:
                rep["generic"] = seen       # what the generic object held (never equals a model reply)
            return rep
        except Exception as e:
            return {"r": "err", "k": core.exc_kind(e)}
    if op == "aenc":
        try:
            h = case["h"]
            cls = A.apdu_types.get(h["t"])
            if cls is None:
                x = A.APDU()
                x.apduType = h["t"]
                set_fields(x, h)
            else:
                # through the class's own constructor parameters (the class fixes apduType);
                # attributes the constructor has no parameter for are assigned afterwards
                kw = {k: h[f] for k, f in CTOR[h["t"]].items()}
                x = cls(**kw)
                for k in KEYS:
                    if k not in CTOR[h["t"]].values():
                        setattr(x, ATTR[k], h[k])
            x.pduData = bytearray(bytes.fromhex(case["data"]))
            if cls is None:
                apdu = x
            else:
                apdu = A.APDU()
                x.encode(apdu)
            pdu = PDU()
            apdu.encode(pdu)
            return {"r": "ok", "hex": bytes(pdu.pduData).hex()}
        except Exception as e:
            return {"r": "err", "k": enc_exc_kind(e)}
    if op == "reuse":
        # a header object that has a past: it received `first` (or was filled from the object
        # that did, by APCI.update), is then given the type and the OWN fields of `h`, and sent
        try:
            h = case["h"]
            src = A.APDU()
            src.decode(PDU(bytes.fromhex(case["first"])))
            if case["via"] == "update":
                obj = A.APDU()
                obj.update(src)
            else:
                obj = src
            obj.apduType = h["t"]
            for k in case["set"]:
                setattr(obj, ATTR[k], h[k])
            obj.pduData = bytearray(bytes.fromhex(case["data"]))
            pdu = PDU()
            obj.encode(pdu)
            return {"r": "ok", "hex": bytes(pdu.pduData).hex()}
        except Exception as e:
            return {"r": "err", "k": enc_exc_kind(e)}
    if op == "dec":
        try:
            raw = bytes.fromhex(case["hex"])
            p = PDU(raw)
            a = A.APDU()
            A.APCI.decode(a, p)
            rest = bytes(p.pduData)
            return {"r": "ok", "h": get_fields(a), "rest": rest.hex(),
                    "own": bytes(a.pduData).hex(), "len": len(raw) - len(rest)}
        except Exception as e:
            return {"r": "err", "k": core.exc_kind(e)}
    if op == "adec":
        try:
            apdu = A.APDU()
            apdu.decode(PDU(bytes.fromhex(case["hex"])))
            cls = A.apdu_types.get(apdu.apduType)
            x = cls()
            x.decode(apdu)
            h = get_fields(x)
            if h != get_fields(apdu):
                return {"r": "err", "k": "python:typed-class-differs"}
            return {"r": "ok", "h": h, "data": bytes(x.pduData).hex()}
        except Exception as e:
            return {"r": "err", "k": core.exc_kind(e)}
    try:
        if op == "segs-enc":
            return {"r": "ok", "c": A.encode_max_segments_accepted(case["n"])}
        if op == "segs-dec":
            return {"r": "ok", "n": A.decode_max_segments_accepted(case["c"])}
        if op == "len-enc":
            return {"r": "ok", "c": A.encode_max_apdu_length_accepted(case["n"])}
        if op == "len-dec":
            return {"r": "ok", "n": A.decode_max_apdu_length_accepted(case["c"])}
    except Exception as e:
        return {"r": "err", "k": tbl_exc_kind(e)}
    raise core.Infra("bad op %r" % (op,))


# ---------------------------------------------------------------- oracle (independent of the model)

def wf(h):
    """the property's domain: exactly the fields of the type, in range"""
    t = h["t"]
    def octet(k): return isinstance(h[k], int) and not isinstance(h[k], bool) and 0 <= h[k] <= 255
    def flag(k): return isinstance(h[k], bool)
    need = {0: ["seg", "mor", "sa", "msegs", "mresp", "inv", "svc"], 1: ["svc"], 2: ["inv", "svc"],
            3: ["seg", "mor", "inv", "svc"], 4: ["nak", "srv", "inv", "seq", "win"], 5: ["inv", "svc"],
            6: ["inv", "rsn"], 7: ["srv", "inv", "rsn"]}.get(t)
    if need is None:
        return False
    need = list(need)
    if t in (0, 3) and h["seg"] is True:
        need += ["seq", "win"]
    for k in KEYS:
        if k in need:
            if k in ("seg", "mor", "sa", "srv", "nak"):
                if not flag(k):
                    return False
            elif not octet(k):
                return False
        elif h[k] is not None:
            return False
    if t == 0 and not (h["msegs"] <= 7 and h["mresp"] <= 15):
        return False
    return True


def expected_layout(h):
    """clause 20.1, octet by octet, for a well-formed header"""
    t = h["t"]
    b = lambda k: 1 if h[k] else 0
    if t == 0:
        out = [(0 << 4) | (b("seg") << 3) | (b("mor") << 2) | (b("sa") << 1),
               (h["msegs"] << 4) | h["mresp"], h["inv"]]
        if h["seg"]:
            out += [h["seq"], h["win"]]
        return bytes(out + [h["svc"]])
    if t == 1:
        return bytes([0x10, h["svc"]])
    if t == 2:
        return bytes([0x20, h["inv"], h["svc"]])
    if t == 3:
        out = [0x30 | (b("seg") << 3) | (b("mor") << 2), h["inv"]]
        if h["seg"]:
            out += [h["seq"], h["win"]]
        return bytes(out + [h["svc"]])
    if t == 4:
        return bytes([0x40 | (b("nak") << 1) | b("srv"), h["inv"], h["seq"], h["win"]])
    if t == 5:
        return bytes([0x50, h["inv"], h["svc"]])
    if t == 6:
        return bytes([0x60, h["inv"], h["rsn"]])
    if t == 7:
        return bytes([0x70 | b("srv"), h["inv"], h["rsn"]])
    raise AssertionError


def need(first):
    """octets a header starting with `first` occupies; None = unknown type"""
    t = first >> 4
    seg = bool(first & 0x08)
    return {0: 6 if seg else 4, 1: 2, 2: 3, 3: 5 if seg else 3, 4: 4, 5: 3, 6: 3, 7: 3}.get(t)


FLAGS = ("seg", "mor", "sa", "srv", "nak")
# the fields clause 20.1 gives each PDU type (seq/win of types 0 and 3 only when segmented)
OWN = {0: ["seg", "mor", "sa", "msegs", "mresp", "inv", "svc"], 1: ["svc"], 2: ["inv", "svc"],
       3: ["seg", "mor", "inv", "svc"], 4: ["nak", "srv", "inv", "seq", "win"], 5: ["inv", "svc"],
       6: ["inv", "rsn"], 7: ["srv", "inv", "rsn"]}
# bits of the first octet a type may set besides its type nibble
FLAGMASK = {0: 0x0E, 1: 0, 2: 0, 3: 0x0C, 4: 0x03, 5: 0, 6: 0, 7: 0x01}


def ref_decode(raw):
    """independent reference decoder (clause 20.1): (header, payload) or None if refused"""
    if not raw:
        return None
    n = need(raw[0])
    if n is None or len(raw) < n:
        return None
    f, t = raw[0], raw[0] >> 4
    bit = lambda m: bool(f & m)
    if t == 0:
        h = H(0, seg=bit(8), mor=bit(4), sa=bit(2), msegs=(raw[1] >> 4) & 7, mresp=raw[1] & 15,
              inv=raw[2], svc=raw[n - 1])
        if h["seg"]:
            h["seq"], h["win"] = raw[3], raw[4]
    elif t == 1:
        h = H(1, svc=raw[1])
    elif t in (2, 5):
        h = H(t, inv=raw[1], svc=raw[2])
    elif t == 3:
        h = H(3, seg=bit(8), mor=bit(4), inv=raw[1], svc=raw[n - 1])
        if h["seg"]:
            h["seq"], h["win"] = raw[2], raw[3]
    elif t == 4:
        h = H(4, nak=bit(2), srv=bit(1), inv=raw[1], seq=raw[2], win=raw[3])
    elif t == 6:
        h = H(6, inv=raw[1], rsn=raw[2])
    else:
        h = H(7, srv=bit(1), inv=raw[1], rsn=raw[2])
    return h, bytes(raw[n:])


def proj(h):
    """the header a peer must see: only the fields of h's OWN type count (flags by
    truthiness, sequence/window only when segmented); whatever else is still set on the
    object — fields of another PDU type left over from an earlier use, copied by
    APCI.update() from a request, or never applicable — must not reach the wire.
    None if the type is unknown."""
    t = h["t"]
    if t not in OWN:
        return None
    p = H(t)
    for k in OWN[t]:
        v = h[k]
        p[k] = bool(v) if (k in FLAGS and (v is None or isinstance(v, bool))) else v
    if t in (0, 3) and p["seg"] is True:
        p["seq"], p["win"] = h["seq"], h["win"]
    return p


def stale_keys(h):
    p = proj(h)
    return [k for k in KEYS if h[k] is not None and (p is None or p[k] is None)]


def oracle(ctx, case, a):
    op = case["op"]
    if a.get("r") == "err" and str(a.get("k", "")).startswith("python:") and not case.get("loose"):
        ctx.fail("unexpected-exception", case, "raised %s" % a["k"], op=op)
        return
    if op in ("enc", "aenc", "reuse"):
        h = case["h"]
        stale = []
        if not wf(h):
            # not a header of the property's domain as it stands; if its OWN fields form one,
            # the octets must be those of the own fields alone (stale / foreign fields ignored)
            stale = stale_keys(h)
            h = proj(h)
            if h is None or not wf(h):
                return
        data = bytes.fromhex(case.get("data", ""))
        if a["r"] != "ok":
            via = ""
            if case.get("sub"):
                sb = case["sub"]
                via = " when sent through %s -> %s (run-time application subclasses; the stock classes encode it)" % (
                    "subclass '%s' of %s" % (sb.get("typed"), sb.get("svc") or STD_TYPES[h["t"]]) if sb.get("typed")
                    else (sb.get("svc") or STD_TYPES[h["t"]]),
                    "subclass '%s' of APDU" % sb["apdu"] if sb.get("apdu") else "APDU")
            ctx.fail("encode-refused", case, "well-formed header refused: %s%s" % (a["k"], via), op=op,
                     pdu_type=h["t"], stale=stale, sub=case.get("sub"))
            return
        exp = expected_layout(h) + data
        if a["hex"] != exp.hex():
            got0 = int(a["hex"][:2], 16) if a["hex"] else -1
            extra = got0 & 0x0F & ~FLAGMASK[h["t"]] if got0 >= 0 and (got0 >> 4) == h["t"] else 0
            why = ("; first octet sets bit(s) 0x%02x that clause 20.1 requires to be zero for this PDU type "
                   "(fields %s of another type are still set on the object)" % (extra, stale)) if extra else ""
            ctx.fail("layout", case, "octets %s differ from clause 20.1 layout %s%s" % (a["hex"], exp.hex(), why),
                     op=op, pdu_type=h["t"], stale=stale, reserved_bits=extra)
        if stale or op == "reuse":
            # canonical form: decoding the produced octets and encoding the result gives the same
            # octets, and the peer sees exactly the own fields
            back = impl({"op": "adec", "hex": a["hex"]}) if op != "enc" else impl({"op": "dec", "hex": a["hex"]})
            if back.get("r") != "ok" or back["h"] != h:
                ctx.fail("roundtrip", case, "the peer decodes %r, sent were %r" % (back.get("h", back), h),
                         op=op, pdu_type=h["t"], stale=stale)
            else:
                again = impl({"op": "enc", "h": back["h"]})
                hdr_hex = a["hex"][:2 * len(expected_layout(h))]
                if again.get("r") != "ok" or again["hex"] != hdr_hex:
                    ctx.fail("canonical", case, "encode(decode(%s)) = %r" % (hdr_hex, again), op=op,
                             pdu_type=h["t"], stale=stale)
            return
        # decode what the implementation itself produced (not the expected octets)
        if op == "enc":
            back = impl({"op": "dec", "hex": a["hex"] + case.get("tail", "")})
            tail = case.get("tail", "")
            if back.get("r") != "ok" or back["h"] != h:
                ctx.fail("roundtrip", case, "APCI.decode(APCI.encode(h)) = %r" % (back,), op=op, pdu_type=h["t"])
            elif back["rest"] != tail:
                ctx.fail("payload", case, "payload after the header is %s, expected %s" % (back["rest"], tail),
                         op=op, pdu_type=h["t"])
        else:
            # (sent through application subclasses, it must still be what the STOCK classes decode)
            back = impl({"op": "adec", "hex": a["hex"]})
            if back.get("r") != "ok" or back["h"] != h:
                ctx.fail("roundtrip", case, "APDU.decode(APDU.encode(h)) = %r" % (back,), op=op, pdu_type=h["t"])
            elif back["data"] != case["data"]:
                ctx.fail("payload", case, "payload %s came back as %s" % (case["data"], back["data"]),
                         op=op, pdu_type=h["t"])
    elif op in ("dec", "adec"):
        raw = bytes.fromhex(case["hex"])
        n = need(raw[0]) if raw else None
        should = n is not None and len(raw) >= n
        if a["r"] == "err":
            if a["k"] != "decoding":
                ctx.fail("wrong-error", case, "decoder failed with %s, not DecodingError" % a["k"], op=op)
            elif should:
                ctx.fail("decode-refused", case, "a complete header of a known type was refused", op=op)
            return
        if not should:
            ctx.fail("decode-accepted", case, "accepted although the type is unknown or octets are missing", op=op)
            return
        h = a["h"]
        rest = a["rest"] if op == "dec" else a["data"]
        if "generic" in a:
            ctx.fail("decoded-header", case, "the typed object holds %r but the generic APDU it was filled from "
                     "held %r" % (h, a["generic"]), op=op, sub=case.get("sub"))
        ref = ref_decode(raw)
        if ref is None or h != ref[0]:
            ctx.fail("decoded-header", case, "decoded %r, clause 20.1 reads %r%s" % (
                h, ref and ref[0], " (decoded through run-time application subclasses %r)" % (case["sub"],)
                if case.get("sub") else ""), op=op, sub=case.get("sub"))
        if raw[n:].hex() != rest:
            ctx.fail("payload", case, "payload is %s, input after the header is %s" % (rest, raw[n:].hex()), op=op)
        if not wf(h):
            ctx.fail("decoded-header", case, "decoded header is not a header of its type: %r" % (h,), op=op)
            return
        # each field is the bits clause 20.1 assigns to it
        exp = expected_layout(h)
        masks = {0: [0xFE, 0x7F], 1: [0xF0], 2: [0xF0], 3: [0xFC], 4: [0xF3], 5: [0xF0], 6: [0xF0], 7: [0xF1]}[h["t"]]
        canon = bytearray(raw[:n])
        for i, m in enumerate(masks):
            canon[i] &= m
        if bytes(canon) != exp:
            ctx.fail("field-bits", case, "fields %r are not the bits of %s" % (h, raw[:n].hex()), op=op)
        # reparse: what decodes, re-encodes and decodes to the same (frames that ARE the
        # canonical encoding of a generated header get this from the enc/aenc cases)
        if case.get("canon"):
            return
        re_ = impl({"op": "enc", "h": h})
        if re_.get("r") != "ok":
            ctx.fail("reparse", case, "decoded header does not re-encode: %r" % (re_,), op=op)
        else:
            back = impl({"op": "dec", "hex": re_["hex"] + rest})
            if back.get("r") != "ok" or back["h"] != h or back["rest"] != rest:
                ctx.fail("reparse", case, "re-encoding decodes differently: %r" % (back,), op=op)
    elif op == "len-enc":
        n_ = case["n"]
        best = max([i for i, v in enumerate(STD_LEN) if v <= n_], default=None)
        got = a.get("c") if a["r"] == "ok" else None
        if got != best:
            ctx.fail("table-floor", case, "max-APDU code for %d is %r, the standard's round-down is %r" % (n_, got, best),
                     op=op)
        elif a["r"] == "err" and a["k"] != "valueRange":
            ctx.fail("wrong-error", case, "refused with %s" % a["k"], op=op)
        elif got is not None:
            back = impl({"op": "len-dec", "c": got})
            if back.get("r") != "ok" or back["n"] > n_ or back["n"] != STD_LEN[got]:
                ctx.fail("table-floor", case, "code %d decodes to %r for capability %d" % (got, back, n_), op=op)
    elif op == "len-dec":
        c = case["c"]
        exp = STD_LEN[c] if c < 6 else None
        got = a.get("n") if a["r"] == "ok" else None
        if got != exp:
            ctx.fail("table-point", case, "max-APDU code %d decodes to %r, standard says %r" % (c, got, exp), op=op)
    elif op == "segs-enc":
        n_ = case["n"]
        if not n_:
            best = 0
        elif n_ > 64:
            best = 7
        else:
            best = max([i for i in range(1, 7) if STD_SEGS[i] <= n_], default=None)
        got = a.get("c") if a["r"] == "ok" else None
        if got != best:
            ctx.fail("table-floor", case, "max-segments code for %r is %r, the standard's round-down is %r" % (n_, got, best),
                     op=op)
        elif a["r"] == "err" and a["k"] != "valueRange":
            ctx.fail("wrong-error", case, "refused with %s" % a["k"], op=op)
        elif got is not None:
            back = impl({"op": "segs-dec", "c": got})
            v = back.get("n") if back.get("r") == "ok" else -1
            if v != STD_SEGS[got] or (v is not None and v > n_):
                ctx.fail("table-floor", case, "code %d decodes to %r for capability %r" % (got, back, n_), op=op)
    elif op == "segs-dec":
        c = case["c"]
        if c < 8:
            if a["r"] != "ok" or a["n"] != STD_SEGS[c]:
                ctx.fail("table-point", case, "max-segments code %d decodes to %r, standard says %r" % (c, a, STD_SEGS[c]),
                         op=op)
        elif a["r"] == "ok":
            ctx.fail("table-point", case, "code %d outside the table decodes to %r" % (c, a), op=op)


def oracle_tables_global(ctx, cases, replies):
    """monotonicity of the two encoders over the swept range"""
    for name in ("len-enc", "segs-enc"):
        prev = None
        for c, a in zip(cases, replies):
            if c["op"] != name or a.get("r") != "ok" or not c["n"]:
                continue
            if prev is not None and c["n"] >= prev[0] and a["c"] < prev[1]:
                ctx.fail("table-mono", c, "capability %d gets code %d but smaller %d gets %d" % (
                    c["n"], a["c"], prev[0], prev[1]), op=name)
            prev = (c["n"], a["c"])


def oracle_registry(ctx):
    from bacpypes import apdu as A
    reg = {k: v.__name__ for k, v in A.apdu_types.items()}
    if reg != STD_TYPES:
        ctx.fail("registry", {"op": "registry"}, "apdu_types = %r" % (reg,), op="registry")
        return
    for t, cls in A.apdu_types.items():
        if cls.pduType != t or cls().apduType != t:
            ctx.fail("registry", {"op": "registry", "t": t}, "%s has pduType %r / apduType %r" % (
                cls.__name__, cls.pduType, cls().apduType), op="registry")
    ctx.count("registry", ("registry", len(reg)))


def oracle_context_ctor(ctx):
    """acks / errors / rejects / aborts built from the request they answer (`context=`)
    carry its invoke ID (and service choice) onto the wire"""
    from bacpypes import apdu as A
    from bacpypes.pdu import PDU
    for inv, svc in itertools.product(OCTETS, OCTETS):
        req = A.ConfirmedRequestPDU(choice=svc)
        req.apduInvokeID = inv
        for t, mk in ((2, lambda: A.SimpleAckPDU(context=req)), (3, lambda: A.ComplexAckPDU(context=req)),
                      (5, lambda: A.ErrorPDU(context=req)), (6, lambda: A.RejectPDU(reason=9, context=req)),
                      (7, lambda: A.AbortPDU(srv=True, reason=65, context=req))):
            case = {"op": "ctx-ctor", "t": t, "inv": inv, "svc": svc}
            try:
                x = mk()
                if t == 3:
                    x.apduSeg = False; x.apduMor = False
                apdu = A.APDU(); x.encode(apdu)
                pdu = PDU(); apdu.encode(pdu)
                got = bytes(pdu.pduData)
            except Exception as e:
                ctx.fail("unexpected-exception", case, "raised %s" % type(e).__name__, op="ctx-ctor")
                continue
            exp = {2: bytes([0x20, inv, svc]), 3: bytes([0x30, inv, svc]), 5: bytes([0x50, inv, svc]),
                   6: bytes([0x60, inv, 9]), 7: bytes([0x71, inv, 65])}[t]
            if got != exp:
                ctx.fail("layout", case, "reply built from its request encodes as %s, expected %s" % (
                    got.hex(), exp.hex()), op="ctx-ctor", pdu_type=t)
            ctx.count("ctx-ctor", ("ctx-ctor", t))


# ---------------------------------------------------------------- generators

def headers_of_type(t, full=True):
    """the full cross product for one PDU type.  full=False (quick tier) thins ONLY the
    four octet fields of segmented confirmed requests to a strength-2 orthogonal array
    (every (inv, svc) pair; seq and win Latin-square functions of the two, so every pair of
    the four fields occurs for every flags x codes combination); flags x code points stay a
    full product.  (core.py runs the quick streams twice — once with the library's _debug
    flags on — so the quick tier has to be light.)"""
    B = [False, True]
    O = OCTETS
    if t == 0:
        for seg, mor, sa in itertools.product(B, B, B):
            for ms, mr in itertools.product(range(8), range(16)):
                for (i, inv), (j, svc) in itertools.product(enumerate(O), enumerate(O)):
                    if seg and full:
                        for sq, wn in itertools.product(O, O):
                            yield H(0, seg=seg, mor=mor, sa=sa, msegs=ms, mresp=mr, inv=inv, svc=svc, seq=sq, win=wn)
                    elif seg:
                        sq, wn = O[(i + 2 * j) % 5], O[(i + j + ms + mr) % 5]
                        yield H(0, seg=seg, mor=mor, sa=sa, msegs=ms, mresp=mr, inv=inv, svc=svc, seq=sq, win=wn)
                    else:
                        yield H(0, seg=seg, mor=mor, sa=sa, msegs=ms, mresp=mr, inv=inv, svc=svc)
    elif t == 1:
        for svc in O:
            yield H(1, svc=svc)
    elif t in (2, 5):
        for inv, svc in itertools.product(O, O):
            yield H(t, inv=inv, svc=svc)
    elif t == 3:
        for seg, mor in itertools.product(B, B):
            for inv, svc in itertools.product(O, O):
                if seg:
                    for sq, wn in itertools.product(O, O):
                        yield H(3, seg=seg, mor=mor, inv=inv, svc=svc, seq=sq, win=wn)
                else:
                    yield H(3, seg=seg, mor=mor, inv=inv, svc=svc)
    elif t == 4:
        for nak, srv in itertools.product(B, B):
            for inv, sq, wn in itertools.product(O, O, O):
                yield H(4, nak=nak, srv=srv, inv=inv, seq=sq, win=wn)
    elif t == 6:
        for inv, rsn in itertools.product(O, O):
            yield H(6, inv=inv, rsn=rsn)
    elif t == 7:
        for srv in B:
            for inv, rsn in itertools.product(O, O):
                yield H(7, srv=srv, inv=inv, rsn=rsn)


PAYLOADS = ["", "00", "ff", "0c0c02", "30010c", "810a0011", "0e0c020000011e094b0f", "ffffffffffffffffffff"]


def payload_for(i, rng):
    if i % 5 == 4:
        return bytes(rng.getrandbits(8) for _ in range(rng.randrange(1, 12))).hex()
    return PAYLOADS[(i // 5 + i) % len(PAYLOADS)]


def header_cases(headers, rng):
    """four operations per header; the decode inputs are the clause-20.1 octets + payload"""
    cases = []
    for i, h in enumerate(headers):
        data = payload_for(i, rng)
        frame = (expected_layout(h) + bytes.fromhex(data)).hex()
        cases.append({"op": "enc", "h": h, "tail": data})
        cases.append({"op": "aenc", "h": h, "data": data})
        cases.append({"op": "dec", "hex": frame, "canon": 1})
        cases.append({"op": "adec", "hex": frame, "canon": 1})
    return cases


def gen_loose(rng):
    """headers outside WFHeader: same bytes or the same refusal on both sides"""
    base = {0: H(0, seg=True, mor=False, sa=True, msegs=3, mresp=5, inv=7, svc=12, seq=1, win=2),
            1: H(1, svc=8), 2: H(2, inv=1, svc=15), 3: H(3, seg=True, mor=True, inv=9, svc=12, seq=3, win=4),
            4: H(4, nak=False, srv=True, inv=1, seq=2, win=3), 5: H(5, inv=1, svc=12),
            6: H(6, inv=1, rsn=9), 7: H(7, srv=True, inv=1, rsn=65)}
    cases = []

    def add(h):
        cases.append({"op": "enc", "h": h, "loose": 1})
        cases.append({"op": "aenc", "h": h, "data": "aa55", "loose": 1})
    for t, b in base.items():
        add(b)
        for k in KEYS:
            vals = [None, True, False] if k in ("seg", "mor", "sa", "srv", "nak") else \
                [None, 0, 7, 8, 15, 16, 17, 255, 256, 300, 65536]
            for v in vals:
                h = dict(b); h[k] = v
                add(h)
        # two-field variations of the code octet
        if t == 0:
            for ms in (0, 7, 8, 9, 15, 16, 20):
                for mr in (0, 15, 16, 17, 31, 255, 256):
                    h = dict(b); h["msegs"] = ms; h["mresp"] = mr
                    add(h)
            # unsegmented but sequence/window set: ignored by the encoder
            h = dict(b); h["seg"] = False
            add(h)
            h = dict(b); h["seg"] = None
            add(h)
    # unknown types, with and without fields
    for t in (8, 9, 15, 16, 255, 256):
        add(H(t))
        add(H(t, inv=1, svc=2, rsn=3, seq=4, win=5, msegs=1, mresp=1, seg=True, srv=True))
    # constructor defaults: every typed class as created, nothing filled in
    for t in range(8):
        add(H(t))
    return cases


STALE_BASES = {
    0: [dict(seg=False, mor=False, sa=False, msegs=0, mresp=5, inv=1, svc=12),
        dict(seg=True, mor=True, sa=True, msegs=7, mresp=15, inv=255, svc=14, seq=128, win=127)],
    1: [dict(svc=8)], 2: [dict(inv=1, svc=15)],
    3: [dict(seg=False, mor=False, inv=42, svc=12), dict(seg=True, mor=False, inv=42, svc=12, seq=3, win=4),
        dict(seg=False, mor=True, inv=0, svc=255)],
    4: [dict(nak=False, srv=False, inv=42, seq=3, win=4), dict(nak=True, srv=False, inv=1, seq=255, win=0),
        dict(nak=False, srv=True, inv=1, seq=0, win=1)],
    5: [dict(inv=1, svc=12)], 6: [dict(inv=1, rsn=9)],
    7: [dict(srv=False, inv=42, rsn=4), dict(srv=True, inv=1, rsn=65)]}


def gen_stale(rng):
    """headers carrying, besides the fields of their own type, every combination of flags
    that belong to OTHER types (and optionally the other types' numeric fields): what an
    object looks like after it was used for another PDU type or filled by APCI.update()"""
    cases = []
    for t, bases in STALE_BASES.items():
        for b in bases:
            own = set(OWN[t]) | ({"seq", "win"} if b.get("seg") else set())
            fflags = [k for k in FLAGS if k not in own]
            fnums = [k for k in KEYS if k not in FLAGS and k not in own]
            for combo in itertools.product([None, False, True], repeat=len(fflags)):
                for nums in (0, 1):
                    if not nums and all(c is None for c in combo):
                        continue
                    h = H(t, **b)
                    for k, v in zip(fflags, combo):
                        h[k] = v
                    if nums:
                        for k in fnums:
                            h[k] = rng.choice([0, 1, 5, 127, 255])
                    cases.append({"op": "enc", "h": h, "loose": 1})
                    cases.append({"op": "aenc", "h": h, "data": rng.choice(PAYLOADS), "loose": 1})
    return cases


def gen_subclass(ctx, rng):
    """the encode / decode / update paths through application subclasses of the eight PDU
    classes, of the generic APDU and of service classes one level down; every header field
    must come out exactly as with the stock classes (= the model reply for aenc / adec)"""
    cases = []
    variants = [None] + SUB_VARIANTS
    combos = [(tv, av) for tv in variants for av in variants if tv or av]
    for t in range(8):
        hs = list(headers_of_type(t, full=False))
        picks = [H(t, **b) for b in STALE_BASES[t]] + [rng.choice(hs) for _ in range(2 if ctx.quick else 10)]
        for tv, av in combos:
            for h in picks:
                data = rng.choice(PAYLOADS)
                sub = {"typed": tv, "apdu": av}
                cases.append({"op": "aenc", "h": h, "data": data, "sub": sub})
                cases.append({"op": "adec", "hex": (expected_layout(h) + bytes.fromhex(data)).hex(), "sub": sub,
                              "canon": 1})
    for name, (t, payload) in sorted(SVC_CLASSES.items()):
        hs = list(headers_of_type(t, full=False))
        picks = [H(t, **STALE_BASES[t][-1])] + [rng.choice(hs) for _ in range(2 if ctx.quick else 8)]
        for tv, av in [(None, None)] + combos:
            for h in picks:
                sub = {"typed": tv, "apdu": av, "svc": name}
                cases.append({"op": "aenc", "h": h, "data": payload, "sub": sub})
                cases.append({"op": "adec", "hex": (expected_layout(h) + bytes.fromhex(payload)).hex(), "sub": sub,
                              "canon": 1})
    return cases


REUSE_FIRST = ["0e7501800c0c0c02", "0275010c0c", "00050c0f", "1008", "20010f", "3c2a03040c0000", "342a0c3e3f",
               "302a0c", "43010203", "42010203", "41010203", "40010203", "50010c0e", "600109", "71012a", "700104"]


def gen_reuse(rng):
    cases = []
    for first in REUSE_FIRST:
        ref = ref_decode(bytes.fromhex(first))[0]
        for t, bases in STALE_BASES.items():
            for b in bases:
                for via in ("same", "update"):
                    hb = H(t, **b)
                    setk = list(OWN[t]) + (["seq", "win"] if hb.get("seg") else [])
                    merged = dict(ref)
                    merged["t"] = t
                    for k in setk:
                        merged[k] = hb[k]
                    data = rng.choice(PAYLOADS)
                    cases.append({"op": "reuse", "first": first, "via": via, "set": setk, "h": merged,
                                  "data": data, "loose": 1,
                                  "model": {"op": "aenc", "h": merged, "data": data}})
    return cases


# ---------------------------------------------------------------- history (one process, objects with a past)

HIST_FRAMES = [  # header-only and empty-payload frames first: they are what a shared buffer would hit
    "20010f", "40010004", "43ff807f", "600109", "6000ff", "71012a", "700104", "1008", "30010c", "50010c",
    "00050c0f", "0c0501000f0f", "0c050100040f", "3c2a03040c", "382a00010c",
    # with payloads
    "080501010 40f0c0080000119 55".replace(" ", ""), "00050c0c0c02", "10080c0c02", "30010c3e4400003f", "3c2a03040c0000",
    "50010c910091", "71012aaa", "20010faa", "40010004bb", "600109cc",
    # refused
    "", "00", "20", "4001", "80", "f0ff", "0c0501"]


def gen_history(rng, nseq, maxlen):
    seqs = []
    for _ in range(nseq):
        steps, objs = [], []        # objs: step index of every successful decode
        for _k in range(rng.randrange(4, maxlen + 1)):
            r = rng.random()
            if r < 0.5 or not objs:
                hx = rng.choice(HIST_FRAMES) if rng.random() < 0.85 else \
                    bytes([rng.randrange(8) << 4 | rng.getrandbits(4)] + [rng.getrandbits(8) for _i in range(rng.randrange(0, 9))]).hex()
                if ref_decode(bytes.fromhex(hx)) is not None:
                    objs.append(len(steps))
                steps.append(["d", hx])
            elif r < 0.62:
                # decode another frame into the SAME typed object (any type: _APDU.decode takes
                # whatever header the generic APDU holds); mostly frames that decode
                hx = rng.choice(HIST_FRAMES)
                steps.append(["r", rng.choice(objs), hx])
            elif r < 0.85:
                i = rng.choice(objs)
                which = rng.choice(["typed", "typed", "apdu"])
                how = rng.choice(["put_data", "put_data", "put", "iadd", "extend", "put_short", "append_segment"])
                if how == "append_segment":
                    steps.append(["m", i, "typed", how, rng.choice(objs)])
                elif how in ("put", "put_short"):
                    steps.append(["m", i, which, how, rng.choice([0, 1, 0x55, 255])])
                else:
                    steps.append(["m", i, which, how, rng.choice(["aa", "0c0080000119", "00", "ffff"])])
            else:
                steps.append(["e", rng.choice(objs), rng.choice(["typed", "typed", "apdu"])])
        seqs.append(steps)
    return seqs


REDECODE_FRAMES = ["30010c0c0200", "3cff807f0e" + "deadbeef" * 4, "30000c", "50070f91029120", "710704", "50080f9101911f",
                   "0245090c0c0200001419 4d".replace(" ", ""), "02450a0c0c02000015194d", "100809011902", "1008",
                   "20010f", "43010203", "600109", "0c0501000f0f" + "aa" * 5, "7001 04 ffee".replace(" ", "")]


def gen_redecode_pairs():
    """every ordered pair (A, B) of frames: decode A into a typed object, decode B into the
    SAME object, re-encode; plus one object per run used for the whole list in turn"""
    seqs = [[["d", a], ["r", 0, b], ["e", 0, "typed"]] for a in REDECODE_FRAMES for b in REDECODE_FRAMES]
    chain = [["d", REDECODE_FRAMES[0]]]
    for b in REDECODE_FRAMES[1:] + REDECODE_FRAMES:
        chain += [["r", 0, b], ["e", 0, "typed"]]
    return seqs + [chain]


def exec_history(ctx, steps):
    """run one sequence on the implementation inside THIS process.  Returns the flattened
    (case, impl reply, model request) triples of its decode / encode steps.  Oracle: every
    decode / encode result depends only on ITS octets / ITS object (reference decoder and
    layout); the pduData of two decoded objects are never the same object; mutating one
    never changes another."""
    from bacpypes import apdu as A
    from bacpypes.pdu import PDU
    objs = {}       # (step, which) -> object
    want = {}       # (step, which) -> bytearray the object's pduData must equal
    hdr = {}        # step -> reference header
    out = []
    failed = [False]

    def fail(kind, k, what):
        if not failed[0]:
            ctx.fail(kind, {"op": "history", "steps": steps[:k + 1], "at": k}, what, op="history")
        failed[0] = True

    for k, st in enumerate(steps):
        case = {"op": "history", "steps": steps[:k + 1], "at": k}
        if st[0] == "d":
            raw = bytes.fromhex(st[1])
            ref = ref_decode(raw)
            try:
                apdu = A.APDU()
                apdu.decode(PDU(raw))
                typed = A.apdu_types[apdu.apduType]()
                typed.decode(apdu)
                rep = {"r": "ok", "h": get_fields(typed), "data": bytes(typed.pduData).hex()}
                objs[(k, "apdu")], objs[(k, "typed")] = apdu, typed
            except Exception as e:
                rep = {"r": "err", "k": core.exc_kind(e)}
            out.append((case, rep, {"op": "adec", "hex": st[1]}))
            if ref is None:
                if rep["r"] == "ok":
                    fail("decode-accepted", k, "step %d: %s accepted" % (k, st[1]))
                elif rep["k"] != "decoding":
                    fail("wrong-error", k, "step %d: %s raised %s" % (k, st[1], rep["k"]))
            elif rep["r"] != "ok":
                fail("decode-refused", k, "step %d: %s refused (%s) after this history" % (k, st[1], rep["k"]))
            else:
                hdr[(k, "typed")] = hdr[(k, "apdu")] = ref[0]
                want[(k, "typed")] = bytearray(ref[1])
                want[(k, "apdu")] = bytearray()
                if rep["h"] != ref[0]:
                    fail("roundtrip", k, "step %d: %s decodes to %r after this history, alone it is %r" % (
                        k, st[1], rep["h"], ref[0]))
                elif rep["data"] != ref[1].hex():
                    fail("payload", k, "step %d: %s decodes with payload %s after this history, its own payload is %s"
                         % (k, st[1], rep["data"], ref[1].hex()))
        elif st[0] == "r":
            _r, i, hx = st
            o = objs.get((i, "typed"))
            if o is None:
                continue
            raw = bytes.fromhex(hx)
            ref = ref_decode(raw)
            try:
                apdu = A.APDU()
                apdu.decode(PDU(raw))
                o.decode(apdu)                       # the SAME typed object once more
                rep = {"r": "ok", "h": get_fields(o), "data": bytes(o.pduData).hex()}
                objs[(k, "apdu")] = apdu
                want[(k, "apdu")] = bytearray()
            except Exception as e:
                rep = {"r": "err", "k": core.exc_kind(e)}
            out.append((case, rep, {"op": "adec", "hex": hx}))
            if ref is None:
                if rep["r"] == "ok":
                    fail("decode-accepted", k, "step %d: %s accepted" % (k, hx))
                elif rep["k"] != "decoding":
                    fail("wrong-error", k, "step %d: %s raised %s" % (k, hx, rep["k"]))
            elif rep["r"] != "ok":
                fail("decode-refused", k, "step %d: %s refused (%s) when decoded into the object of step %d" % (
                    k, hx, rep["k"], i))
            else:
                hdr[(i, "typed")] = hdr[(k, "apdu")] = ref[0]
                want[(i, "typed")] = bytearray(ref[1])
                if rep["h"] != ref[0]:
                    fail("roundtrip", k, "step %d: %s decoded into the typed object of step %d gives %r, the frame "
                         "says %r" % (k, hx, i, rep["h"], ref[0]))
                elif rep["data"] != ref[1].hex():
                    fail("payload", k, "step %d: %s decoded into the typed object of step %d (used before) has "
                         "payload %s, the frame's payload is %s" % (k, hx, i, rep["data"], ref[1].hex()))
        elif st[0] == "m":
            _m, i, which, how, arg = st
            o = objs.get((i, which))
            if o is None:
                continue
            if how == "append_segment":
                src = objs.get((arg, "typed"))
                if src is None or src is o:     # (bytearray += itself is a BufferError in Python)
                    continue
                add = bytes(want[(arg, "typed")])
                o.put_data(src.pduData)            # what SSM.append_segment does
            elif how == "put_data":
                add = bytes.fromhex(arg); o.put_data(add)
            elif how == "put":
                add = bytes([arg]); o.put(arg)
            elif how == "put_short":
                add = bytes([0, arg]); o.put_short(arg)
            elif how == "iadd":
                add = bytes.fromhex(arg); o.pduData += add
            else:
                add = bytes.fromhex(arg); o.pduData.extend(add)
            want[(i, which)] += add
        else:
            _e, i, which = st
            o = objs.get((i, which))
            if o is None:
                continue
            try:
                pdu = PDU()
                if which == "typed":
                    x = A.APDU(); o.encode(x); x.encode(pdu)
                else:
                    o.encode(pdu)
                rep = {"r": "ok", "hex": bytes(pdu.pduData).hex()}
            except Exception as e:
                rep = {"r": "err", "k": enc_exc_kind(e)}
            data = bytes(want[(i, which)])
            out.append((case, rep, {"op": "aenc", "h": hdr[(i, which)], "data": data.hex()}))
            exp = (expected_layout(hdr[(i, which)]) + data).hex()
            if rep.get("hex") != exp:
                fail("layout", k, "step %d: object of step %d re-encodes as %r, its header + its payload is %s" % (
                    k, i, rep.get("hex", rep), exp))
        # after every step: no two decoded objects share a buffer, nobody's payload moved
        seen = {}
        for key, o in objs.items():
            other = seen.setdefault(id(o.pduData), key)
            if other != key:
                fail("alias", k, "after step %d the pduData of object %r and of object %r are the SAME bytearray"
                     % (k, other, key))
            if bytes(o.pduData) != bytes(want[key]):
                fail("payload", k, "after step %d the pduData of object %r is %s, it must be %s (changed through "
                     "another object)" % (k, key, bytes(o.pduData).hex(), bytes(want[key]).hex()))
    return out, failed[0]


def run_history(ctx, stream, seqs, stop=True):
    flat = []
    for steps in seqs:
        out, bad = exec_history(ctx, steps)
        flat += out
        if bad and stop:
            break       # the process may carry the damage on: later sequences would not be self-contained
    cases = [c for c, _a, _w in flat]
    a = [r for _c, r, _w in flat]
    if ctx.model_ok and flat:
        b = core.Driver("drv_c07").ask([w for _c, _a, w in flat])
        ctx.compare_stream(stream, cases, a, b, sig=sig)
    else:
        for c in cases:
            ctx.count(stream)
    if seqs:
        ctx.sample({"stream": stream, "case": {"op": "history", "steps": seqs[0]}})


def shard_history(ctx, spec):
    idx, nseq, maxlen = spec
    if idx == "pairs":
        run_history(ctx, "history-redecode", gen_redecode_pairs())
        return
    rng = ctx.sub_rng("c07-history-%d" % idx)
    run_history(ctx, "history", gen_history(rng, nseq, maxlen))


# ---------------------------------------------------------------- through the stack (client side)

_stack_cls = {}


def _stack_classes():
    """a real client / server stack: Application + ASAP + SMAP + NSAP on a vlan.Node, and a
    promiscuous sniffer that keeps the APDU octets of every frame on the wire"""
    if _stack_cls:
        return _stack_cls
    from bacpypes.comm import Client, bind
    from bacpypes.pdu import Address
    from bacpypes.vlan import Node
    from bacpypes.npdu import NPDU
    from bacpypes.app import Application
    from bacpypes.appservice import StateMachineAccessPoint, ApplicationServiceAccessPoint
    from bacpypes.netservice import NetworkServiceAccessPoint, NetworkServiceElement
    from bacpypes.service.device import WhoIsIAmServices
    from bacpypes.service.object import ReadWritePropertyServices

    class Sniffer(Client):
        def __init__(self, vlan):
            Client.__init__(self)
            self.node = Node(Address(99), vlan, promiscuous=True)
            bind(self, self.node)
            self.frames = []

        def confirmation(self, pdu):
            npdu = NPDU()
            npdu.decode(pdu)
            if npdu.npduNetMessage is None:
                self.frames.append((str(pdu.pduSource), bytes(npdu.pduData)))

    class App(Application, WhoIsIAmServices, ReadWritePropertyServices):
        def __init__(self, device, addr, vlan):
            Application.__init__(self, device, Address(addr))
            self.asap = ApplicationServiceAccessPoint()
            self.smap = StateMachineAccessPoint(device)
            self.smap.deviceInfoCache = self.deviceInfoCache
            self.nsap = NetworkServiceAccessPoint()
            self.nse = NetworkServiceElement()
            bind(self.nse, self.nsap)
            bind(self, self.asap, self.smap, self.nsap)
            self.node = Node(Address(addr), vlan)
            self.nsap.bind(self.node)
            self.answers = []

        def confirmation(self, apdu):
            self.answers.append(apdu)

    _stack_cls.update(Sniffer=Sniffer, App=App)
    return _stack_cls


def exec_stack(scn):
    """run one scenario on real stacks under virtual time; returns the confirmed-request
    headers the CLIENT put on the wire: [{"step","seg","msegs","mresp","sa"}], and errors"""
    from .vt import VT
    vt = VT.install()
    vt.reset()
    from bacpypes.pdu import Address, LocalBroadcast
    from bacpypes.vlan import Network
    from bacpypes.apdu import IAmRequest, ReadPropertyRequest, WritePropertyRequest
    from bacpypes.primitivedata import CharacterString
    from bacpypes.constructeddata import Any
    from bacpypes.local.device import LocalDeviceObject
    K = _stack_classes()
    c, p = scn["client"], scn["peer"]
    vlan = Network(broadcast_address=LocalBroadcast())
    sn = K["Sniffer"](vlan)
    cdev = LocalDeviceObject(objectName="client", objectIdentifier=("device", 10), vendorIdentifier=999,
                             maxApduLengthAccepted=c["apdu"], segmentationSupported=c["seg"],
                             maxSegmentsAccepted=c["segs"] if c["segs"] is not None else 2)
    if c["segs"] is None:
        cdev.maxSegmentsAccepted = None
    client = K["App"](cdev, 10, vlan)
    server = K["App"](LocalDeviceObject(objectName="server", objectIdentifier=("device", 20), vendorIdentifier=999,
                                        maxApduLengthAccepted=p["apdu"], segmentationSupported=p["seg"],
                                        maxSegmentsAccepted=64), 20, vlan)
    out, errors = [], []
    for k, step in enumerate(scn["steps"]):
        n0 = len(sn.frames)
        try:
            if step == "learn":
                iam = IAmRequest(iAmDeviceIdentifier=("device", 20), maxAPDULengthAccepted=p["apdu"],
                                 segmentationSupported=p["seg"], vendorID=999)
                iam.pduSource = Address(20)
                client.deviceInfoCache.iam_device_info(iam)
            elif step.startswith("cache:"):
                di = client.deviceInfoCache.get_device_info(Address(20))
                if di is not None:
                    key, val = step[6:].split("=")
                    setattr(di, {"segs": "maxSegmentsAccepted", "npdu": "maxNpduLength",
                                 "apdu": "maxApduLengthAccepted"}[key], int(val))
                    client.deviceInfoCache.update_device_info(di)
            elif step == "read":
                req = ReadPropertyRequest(objectIdentifier=("device", 20), propertyIdentifier="objectName")
                req.pduDestination = Address(20)
                client.request(req)
                vt.run()
            elif step.startswith("big:"):
                req = WritePropertyRequest(objectIdentifier=("device", 20), propertyIdentifier="description")
                req.propertyValue = Any()
                req.propertyValue.cast_in(CharacterString("x" * int(step[4:])))
                req.pduDestination = Address(20)
                client.request(req)
                vt.run()
        except Exception as e:
            errors.append([k, type(e).__name__ + ": " + str(e)[:120]])
        for src, octets in sn.frames[n0:]:
            if src == "10" and octets and octets[0] >> 4 == 0:
                ref = ref_decode(octets)
                if ref is None:
                    errors.append([k, "undecodable request header " + octets[:6].hex()])
                    continue
                h = ref[0]
                out.append({"step": k, "seg": h["seg"], "msegs": h["msegs"], "mresp": h["mresp"], "sa": h["sa"],
                            "head": octets[:4].hex()})
    for name, msg in vt.errors:
        errors.append([-1, "%s: %s" % (name, msg[:120])])
    return out, errors


def std_codes(c):
    segs = c["segs"]
    ms = 0 if not segs else 7 if segs > 64 else max(i for i in range(1, 7) if STD_SEGS[i] <= segs)
    mr = max(i for i, v in enumerate(STD_LEN) if v <= c["apdu"])
    return ms, mr


def run_stack(ctx, stream, scenarios):
    """oracle: every confirmed-request header leaving the client carries the floor code points of
    the CLIENT's own configured max-segments / max-APDU (and SA = the client can receive segments),
    whatever the device-info cache says about the peer, unsegmented and segmented alike"""
    cases, a, wire = [], [], []
    for scn in scenarios:
        frames, errors = exec_stack(scn)
        c = scn["client"]
        ms, mr = std_codes(c)
        sa = c["seg"] in ("segmentedReceive", "segmentedBoth")
        for msg in errors:
            ctx.fail("unexpected-exception", dict(scn, op="stack"), "step %s: %s" % (msg[0], msg[1]), op="stack")
        reads = [k for k, st in enumerate(scn["steps"]) if st == "read"]
        silent = [k for k in reads if not any(f["step"] == k for f in frames)]
        if silent and not errors:
            ctx.fail("stack-silent", dict(scn, op="stack"), "no confirmed request left the client in step(s) %r" % silent,
                     op="stack")
        bad = None
        for i, f in enumerate(frames):
            case = dict(scn, op="stack", frame=i)
            cases.append(case)
            a.append({"r": "ok", "msegs": f["msegs"], "mresp": f["mresp"]})
            wire.append((c["segs"], c["apdu"]))
            if bad is None and (f["msegs"], f["mresp"], f["sa"]) != (ms, mr, sa):
                bad = (i, f)
        if bad is not None:
            i, f = bad
            known = any(st == "learn" for st in scn["steps"][:f["step"] + 1])
            ctx.fail("stack-header", dict(scn, op="stack", frame=i),
                     "request %d (step %d '%s', %s, peer %s) left the client as %s: max-segments code %d, max-response "
                     "code %d, SA %r; the client's own configuration (maxSegmentsAccepted %r, maxApduLengthAccepted %d, "
                     "%s) rounds down to codes %d / %d, SA %r" % (
                         i, f["step"], scn["steps"][f["step"]], "segmented" if f["seg"] else "unsegmented",
                         "known from the cache (%r)" % (scn["peer"],) if known else "unknown", f["head"], f["msegs"],
                         f["mresp"], f["sa"], c["segs"], c["apdu"], c["seg"], ms, mr, sa),
                     op="stack", got_mresp=f["mresp"], want_mresp=mr, got_msegs=f["msegs"], want_msegs=ms)
    if ctx.model_ok and cases:
        uniq = sorted(set(wire), key=lambda x: (x[0] is None, x[0] or 0, x[1]))
        reqs = []
        for sg, ap in uniq:
            reqs += [{"op": "segs-enc", "n": sg}, {"op": "len-enc", "n": ap}]
        rep = core.Driver("drv_c07").ask(reqs)
        table = {}
        for j, key in enumerate(uniq):
            r1, r2 = rep[2 * j], rep[2 * j + 1]
            table[key] = {"r": "ok", "msegs": r1.get("c"), "mresp": r2.get("c")} if r1.get("r") == r2.get("r") == "ok" \
                else {"r": "err", "k": r1.get("k") or r2.get("k")}
        ctx.compare_stream(stream, cases, a, [table[w] for w in wire], sig=sig)
    else:
        for _c in cases:
            ctx.count(stream)
    if scenarios:
        ctx.sample({"stream": stream, "case": dict(scenarios[0], op="stack")})


APDU_SIZES = [50, 128, 206, 480, 1024, 1476, 51, 127, 300, 479, 1000, 1475, 2000]
SEG_COUNTS = [None, 0, 2, 3, 4, 7, 8, 16, 31, 32, 64, 65, 100]
SEG_MODES = ["segmentedBoth", "noSegmentation", "segmentedTransmit", "segmentedReceive"]
PEER_SIZES = [1476, 50, 480, 1024, 128, 206]


def gen_stack(ctx, rng):
    scns = []

    def add(ca, cs, cm, pa, variant):
        big = "big:%d" % min(3200, 3 * min(ca, pa))
        steps = {0: ["read", "learn", "read", big, "read"],
                 1: ["learn", "read", big, "cache:segs=64", "read"],
                 2: ["read", big, "learn", "cache:npdu=%d" % (pa + 21), "read", big],
                 3: ["learn", "cache:apdu=1476", "read", "cache:apdu=50", "read"]}[variant % 4]
        scns.append({"client": {"apdu": ca, "segs": cs, "seg": cm},
                     "peer": {"apdu": pa, "seg": "segmentedBoth"}, "steps": steps})
    n = 0
    for ca in APDU_SIZES:
        for pa in (PEER_SIZES if not ctx.quick else PEER_SIZES[:4]):
            add(ca, SEG_COUNTS[n % len(SEG_COUNTS)], SEG_MODES[n % 4 if n % 3 else 0], pa, n)
            n += 1
    for cs in SEG_COUNTS:
        for cm in SEG_MODES:
            add(APDU_SIZES[n % len(APDU_SIZES)], cs, cm, PEER_SIZES[n % len(PEER_SIZES)], n)
            n += 1
    if not ctx.quick:
        for _ in range(1500):
            add(rng.choice(APDU_SIZES + [rng.randrange(50, 2001)]), rng.choice(SEG_COUNTS + [rng.randrange(2, 120)]),
                rng.choice(SEG_MODES), rng.choice(PEER_SIZES + [rng.randrange(50, 1477)]), rng.randrange(4))
    return scns


def shard_stack(ctx, spec):
    idx, n = spec
    scns = gen_stack(ctx, ctx.sub_rng("c07-stack"))
    run_stack(ctx, "stack", [s_ for i, s_ in enumerate(scns) if i % n == idx])


def gen_oct_exhaustive(length, lo, hi):
    for v in range(lo, hi):
        hx = v.to_bytes(length, "big").hex() if length else ""
        yield {"op": "dec", "hex": hx}
        yield {"op": "adec", "hex": hx}


def gen_oct_random(ctx, rng, n):
    cases = []
    for _ in range(n):
        ln = rng.choice([3, 3, 4, 4, 5, 5, 6, 6, 7, 8, 12, 20, 60])
        b = bytearray(rng.getrandbits(8) for _ in range(ln))
        r = rng.random()
        if r < 0.8:
            b[0] = (rng.randrange(8) << 4) | rng.getrandbits(4)      # a known type, any flag/reserved bits
        hx = bytes(b).hex()
        cases.append({"op": "dec", "hex": hx})
        cases.append({"op": "adec", "hex": hx})
    return cases


def gen_oct_trunc(ctx, rng):
    """every strict prefix of one valid frame per (type, seg) and single-octet substitutions"""
    cases = []
    seeds = []
    for t in range(8):
        hs = list(headers_of_type(t))
        picks = [hs[0], hs[-1], hs[len(hs) // 2]] + [rng.choice(hs) for _ in range(3 if ctx.quick else 12)]
        seeds += picks
    subs = [0x00, 0x01, 0x08, 0x0f, 0x10, 0x7f, 0x80, 0xf0, 0xff]
    for h in seeds:
        frame = expected_layout(h) + bytes.fromhex("0c0c02")
        for k in range(len(frame) + 1):
            cases.append({"op": "dec", "hex": frame[:k].hex()})
            cases.append({"op": "adec", "hex": frame[:k].hex()})
        for i in range(len(frame) - 3):
            for s in subs:
                m = bytearray(frame); m[i] = s
                cases.append({"op": "dec", "hex": bytes(m).hex()})
                cases.append({"op": "adec", "hex": bytes(m).hex()})
            m = bytearray(frame); m[i] ^= 1 << rng.randrange(8)
            cases.append({"op": "dec", "hex": bytes(m).hex()})
    return cases


def gen_tables(ctx, hi=2000):
    cases = [{"op": "segs-enc", "n": None}]
    big = [2001, 4095, 4096, 65535, 65536, 70000, 10 ** 6, 2 ** 32, 2 ** 64 + 1]
    for n in list(range(0, hi + 1)) + big:
        cases.append({"op": "segs-enc", "n": n})
    for n in list(range(0, hi + 1)) + big:
        cases.append({"op": "len-enc", "n": n})
    for c in range(0, 21):
        cases.append({"op": "segs-dec", "c": c})
        cases.append({"op": "len-dec", "c": c})
    for c in (255, 256, 1000):
        cases.append({"op": "segs-dec", "c": c})
        cases.append({"op": "len-dec", "c": c})
    return cases


# ---------------------------------------------------------------- signatures

def sig(case, m):
    op = case["op"]
    if op == "history":
        st = case["steps"][case["at"]]
        past = sum(1 for x in case["steps"][:case["at"]] if x[0] == "m")
        if st[0] in ("d", "r"):
            res = (m["h"]["t"], m["h"]["seg"], m["data"] == "") if m.get("r") == "ok" else m.get("k")
            if st[0] == "r":
                first = next((x[1] for x in case["steps"][:st[1] + 1][::-1] if x[0] == "d"), "")[:1]
                res = (res, "into", first)
        else:
            res = (st[2], m.get("r"))
        return ("history", st[0], res, min(past, 3))
    if op == "stack":
        st = case["steps"]
        return ("stack", m.get("msegs"), m.get("mresp"), case["client"]["seg"], len(st), st[0])
    if op == "reuse":
        return (op, case["first"][:2], case["via"], case["h"]["t"], bool(case["h"]["seg"]),
                "ok" if m.get("r") == "ok" else m.get("k"))
    if case.get("sub"):
        sub = case["sub"]
        t = case["h"]["t"] if op == "aenc" else int(case["hex"][:1], 16)
        seg = bool(case["h"]["seg"]) if op == "aenc" else bool(int(case["hex"][1:2], 16) & 8) and t in (0, 3)
        return (op, "sub", t, seg, sub.get("typed"), sub.get("apdu"), sub.get("svc"), m.get("r"))
    if op in ("enc", "aenc"):
        h = case["h"]
        res = "ok" if m.get("r") == "ok" else m.get("k")
        if case.get("loose"):
            bad = tuple(k for k in KEYS if h[k] is None)
            return (op, "loose", min(h["t"], 9), res, bad, tuple(stale_keys(h)))
        return (op, h["t"], h["seg"], h["mor"], h["sa"], h["srv"], h["nak"], h["msegs"], h["mresp"], res)
    if op in ("dec", "adec"):
        raw = case["hex"]
        ln = len(raw) // 2
        if m.get("r") != "ok":
            return (op, m.get("k"), raw[:1], min(ln, 7))
        h = m["h"]
        return (op, h["t"], h["seg"], h["mor"], h["sa"], h["srv"], h["nak"], h["msegs"], h["mresp"], min(ln, 7))
    if m.get("r") != "ok":
        return (op, m.get("k"))
    return (op, m.get("c", m.get("n")))


# ---------------------------------------------------------------- run

def run_cases(ctx, stream, cases, oracle_on=True):
    a = [impl(c) for c in cases]
    if oracle_on:
        for c, r in zip(cases, a):
            oracle(ctx, c, r)
    if ctx.model_ok:
        wire = [c["model"] if "model" in c else
                {k: v for k, v in c.items() if k not in ("tail", "loose", "canon", "sub")} for c in cases]
        b = core.Driver("drv_c07").ask(wire)
        ctx.compare_stream(stream, cases, a, b, sig=sig)
    else:
        for c in cases:
            ctx.count(stream)
    for c in cases[:2]:
        ctx.sample({"stream": stream, "case": c})
    return a


def shard_headers(ctx, spec):
    t, idx, nshards = spec
    rng = ctx.sub_rng("c07-hdr-%d-%d" % (t, idx))
    hs = [h for i, h in enumerate(headers_of_type(t, full=not ctx.quick)) if i % nshards == idx]
    run_cases(ctx, "hdr-%d" % t, header_cases(hs, rng))


def shard_oct(ctx, spec):
    length, lo, hi = spec
    run_cases(ctx, "oct-%d" % length, list(gen_oct_exhaustive(length, lo, hi)))


def shard_random(ctx, spec):
    idx, n = spec
    rng = ctx.sub_rng("c07-rand-%d" % idx)
    run_cases(ctx, "oct-random", gen_oct_random(ctx, rng, n))


def load_corpus():
    out = []
    for path in sorted(glob.glob(os.path.join(core.VERIF, "corpus", "C07", "*.json"))):
        with open(path) as f:
            d = json.load(f)
        for c in (d.get("cases") or [d["case"]]):
            out.append(c)
    return out


def run(ctx):
    rng = ctx.sub_rng("c07")
    # 0. corpus first
    corpus = load_corpus()
    if corpus:
        run_cases(ctx, "corpus", [c for c in corpus if c["op"] not in ("history", "stack")])
        run_stack(ctx, "corpus", [{k: c[k] for k in ("client", "peer", "steps")} for c in corpus if c["op"] == "stack"])
        run_history(ctx, "corpus", [c["steps"] for c in corpus if c["op"] == "history"], stop=False)
    oracle_registry(ctx)
    oracle_context_ctor(ctx)
    # 0b. objects with a past, inside worker processes (each worker runs several sequences
    #     one after the other in the same interpreter)
    nh, per, ml = (8, 40, 24) if ctx.quick else (16, 1500, 40)
    core.run_shards(ctx, "harness.c07", "shard_history", [("pairs", 0, 0)] + [(i, per, ml) for i in range(nh)])
    # 0c. the codes as they leave a real client stack (worker processes, virtual time)
    ns = 4 if ctx.quick else 16
    core.run_shards(ctx, "harness.c07", "shard_stack", [(i, ns) for i in range(ns)])
    # 1. tables
    tc = gen_tables(ctx)
    ta = run_cases(ctx, "tables", tc)
    oracle_tables_global(ctx, tc, ta)
    # 2. loose headers and truncations / substitutions
    run_cases(ctx, "hdr-loose", gen_loose(rng))
    run_cases(ctx, "hdr-stale", gen_stale(rng))
    run_cases(ctx, "hdr-reuse", gen_reuse(rng))
    run_cases(ctx, "subclass", gen_subclass(ctx, rng))
    run_cases(ctx, "oct-trunc", gen_oct_trunc(ctx, rng))
    # 3. full cross product per type, exhaustive octet strings, random octets (sharded)
    specs = [(0, i, 16) for i in range(16)] + [(t, 0, 1) for t in range(1, 8)]
    core.run_shards(ctx, "harness.c07", "shard_headers", specs)
    ospecs = [(0, 0, 1), (1, 0, 256)] + [(2, lo, lo + 4096) for lo in range(0, 65536, 4096)]
    if not ctx.quick:
        step = 1 << 17
        ospecs += [(3, lo, lo + step) for lo in range(0, 1 << 24, step)]
    core.run_shards(ctx, "harness.c07", "shard_oct", ospecs)
    nrand = 16 if not ctx.quick else 8
    per = 2500 if ctx.quick else 25000
    core.run_shards(ctx, "harness.c07", "shard_random", [(i, per) for i in range(nrand)])
    # 4. the same history stream once more in THIS process, after everything else it has done
    #     (last, so that damage done to process-wide state cannot blur the other streams)
    run_history(ctx, "history", gen_history(ctx.sub_rng("c07-history-main"), 40 if ctx.quick else 400, 24))
    ctx.exhaustive = False
    ctx.extra["exhaustive_octet_string_length"] = 2 if ctx.quick else 3
    ctx.extra["header_cross_product"] = (
        "full (flags x codes x {0,1,127,128,255}) for all eight types" if not ctx.quick else
        "full flags x codes for all eight types; octet fields {0,1,127,128,255} full except segmented "
        "confirmed requests: strength-2 orthogonal array over (inv, svc, seq, win) (thorough: full)")
    ctx.extra["capability_sweep"] = "None, 0..2000, large"


def search(ctx):
    """focused failing-input search (oracle only): wider sweeps around the same quantifier —
    every single octet field through all 256 values, capabilities up to 70000, all length-3
    octet strings of two first-octet classes per type."""
    rng = ctx.sub_rng("c07-search")
    n0 = len(ctx.failures)
    oracle_registry(ctx)
    oracle_context_ctor(ctx)
    for c in gen_stale(rng) + gen_reuse(rng) + gen_loose(rng) + gen_subclass(ctx, rng):
        oracle(ctx, c, impl(c))
    if len(ctx.failures) > n0:
        return
    cases = []
    for n in range(0, 70001):
        cases.append({"op": "len-enc", "n": n})
        cases.append({"op": "segs-enc", "n": n})
    rep = [impl(c) for c in cases]
    for c, r in zip(cases, rep):
        oracle(ctx, c, r)
    oracle_tables_global(ctx, cases, rep)
    if len(ctx.failures) > n0:
        return
    base = []
    for t in range(8):
        hs = list(headers_of_type(t))
        base += [hs[0], hs[-1]] + [rng.choice(hs) for _ in range(6)]
    hcases = []
    for h in base:
        for k in KEYS:
            if isinstance(h[k], int) and not isinstance(h[k], bool):
                top = 8 if k == "msegs" else 16 if k == "mresp" else 256
                for v in range(top):
                    g = dict(h); g[k] = v
                    hcases.append(g)
    for c in header_cases(hcases, rng):
        oracle(ctx, c, impl(c))
    if len(ctx.failures) > n0:
        return
    for first in [0x00, 0x08, 0x0e, 0x10, 0x20, 0x30, 0x3c, 0x40, 0x43, 0x50, 0x60, 0x70, 0x71, 0x80, 0xf0]:
        for v in range(0, 65536, 1 if not ctx.quick else 23):
            hx = bytes([first]).hex() + v.to_bytes(2, "big").hex()
            for op in ("dec", "adec"):
                c = {"op": op, "hex": hx}
                oracle(ctx, c, impl(c))


def replay(ctx, payload):
    rec = payload.get("failure") or (payload.get("correspondence_disagreements") or [{}])[0]
    case = rec.get("case")
    if not case:
        raise core.Infra("nothing to replay")
    if case.get("op") == "registry":
        oracle_registry(ctx)
        return
    if case.get("op") == "ctx-ctor":
        oracle_context_ctor(ctx)
        return
    if case.get("op") == "history":
        run_history(ctx, "replay", [case["steps"]])
        return
    if case.get("op") == "stack":
        run_stack(ctx, "replay", [{k: case[k] for k in ("client", "peer", "steps")}])
        return
    a = run_cases(ctx, "replay", [case])
    if case["op"] in ("len-enc", "segs-enc"):
        # monotonicity failures need the neighbourhood
        n = case["n"] or 0
        cs = [{"op": case["op"], "n": k} for k in range(max(0, n - 80), n + 2)]
        oracle_tables_global(ctx, cs, [impl(c) for c in cs])


if __name__ == "__main__":
    if "--gen" in sys.argv:
        core.bind_repo()
        print("changed" if _translator().generate(core.LEAN) else "unchanged")
