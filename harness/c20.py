"""
C20 — a schedule shows the value its calendar dictates at every instant, never stale.

Correspondence streams (model = lean/Drv/C20.lean over Model.Schedule):
  cal      the model's own Gregorian calendar of a year (month lengths, leap
           flag, weekday of every day, ordinal of Jan 1) against Python's
           datetime/calendar  (all 255 years in thorough)
  now/dt   Date.now / Time.now / datetime_to_time against dateOf / timeOf /
           datetimeToTime
  year     date_in_calendar_entry (match_date / match_date_range /
           match_weeknday) of one pattern against EVERY day of a year;
           thorough: every year 1900..2154 x every pattern class (sharded),
           quick: every pattern class over one year (rotating with the seed)
  evalday  LocalScheduleInterpreter.eval of random schedules at every minute
           of sampled days plus every entry time -1/0/+1 hundredth.  All
           questions of a group go to ONE interpreter object, in ascending,
           descending, shuffled, look-at-the-reported-transition-and-come-back
           and date-alternating orders (+ a sparse second pass in the opposite
           direction); then a chain of up to 6 mutations of the state `eval`
           reads, each one bracketed by a question about an instant it affects
           immediately before and immediately after it, WITHOUT a monitored write: the dateList of a referenced calendar
           object (written or changed in place), listOfTimeValues /
           eventPriority / period of a special event, a daySchedule, the ends of
           effectivePeriod, the value of scheduleDefault.  eval must equal the
           model and the BACnet rule for the configuration as it is at that
           moment, and answer the same question the same way every time
  evalbad  the same for malformed input (unsorted lists, wildcard times,
           priority 0/17, missing calendar, empty choice, bad weekday/month)
  runbad   timer runs of malformed configurations (the exceptions process_task lets escape,
           the faulty-configuration gate): correspondence only
  run      a real LocalScheduleObject in a real Application under virtual
           time: creation, every timer firing, writes to weeklySchedule /
           exceptionSchedule / scheduleDefault / effectivePeriod, over several
           days incl. effective-period entry and exit; (time, presentValue,
           armed deadline, exception) per step
  multi    5..10 LocalScheduleObjects (different configurations, irregular transition
           times) in ONE application / one task manager under the virtual clock, plus
           4..12 unrelated one-shot timers that are installed and cancelled on the way
           and writes (weeklySchedule / exceptionSchedule / effectivePeriod /
           scheduleDefault) to some schedules at random instants (each write cancels
           and re-arms that schedule's timer); presentValue of EVERY schedule at every
           transition instant of every schedule (and one second later), at every
           write and on a 30-minute grid; many short runs (14..34 h)
  repair   failure-and-repair histories (timer runs): a configuration on which the evaluation
           RAISES (dangling calendar reference, priority 17, calendar entry / period with no
           choice — all accepted by the write path and by _check_reliability) from the start
           or written on the way, then a repairing write (whole exceptionSchedule, the ONE bad
           element by array index, or adding the missing calendar object and writing
           exceptionSchedule again); lockstep with the model through the failures, and from
           the repair on the full staleness oracle
  faultfix configuration-FAULT-and-correction histories (oracle only): a running schedule is
           given a configuration the object reports as faulty (Integer among Reals in the
           weekly / exception schedule, Integer scheduleDefault, wildcard weekly time ->
           reliability configurationError), minutes or hours later a valid configuration is
           written (whole property, ONE element by index, in-place edit + same object); the run
           goes on for 3..4 more days; nothing is demanded while faulty, from the correcting
           write on the full staleness / re-arm oracle over all following days
  dst      (oracle only, no model: mktime/localtime outside UTC are not modelled) 1..3
           schedules per run in worker processes whose TZ is UTC, EST5EDT (US rules),
           CET-1CEST (EU rules) or AEST-10AEDT (southern hemisphere), run across a change-over
           in either direction (85 %) or on ordinary days, entries and writes concentrated in
           the small hours; presentValue at every wall-clock transition instant
           (time.mktime of the full struct, tm_isdst=-1) and a second later, at local
           midnights, on a 15-minute grid 3 h either side of the change, at writes, against
           `ref_value` at the wall-clock reading time.localtime gives for that instant
  All timer streams also reconfigure by EDITING the stored array / DailySchedule /
  SpecialEvent / list objects in place and writing the very same object back
  (`so.weeklySchedule = so.weeklySchedule`, WriteProperty(prop, stored object, direct=True)).
  All timer streams (run, multi, repair, dst) write whole properties AND by array index:
  weeklySchedule[1..7], exceptionSchedule[i], exceptionSchedule[0] (resize), through
  obj.WriteProperty(..., arrayIndex=i, direct=True) and through a WritePropertyRequest handed
  to the application (ReadWritePropertyServices.do_WritePropertyRequest), scheduleDefault /
  effectivePeriod also through the service.
Implementation-side oracles (independent of the model):
  * `denotes`: the BACnet meaning of a date pattern written directly with
    datetime (weekday, last day of month by "tomorrow is another month")
  * `ref_value`: a direct interpreter of the BACnet rule (highest-priority
    exception in force whose latest entry is not a relinquish, lowest index on
    ties; else latest weekly entry; else default) -- no slots, no early breaks
  * next-transition: strictly after the evaluated time, and no sampled instant
    before it evaluates to a different value
  * multi-schedule runs: every schedule shows `ref_value` of ITS configuration at every
    probe (`stale-multi`) and no schedule's timer is still pending after its time has
    come (`timer-overdue`: the task manager slept past it)
  * timer runs: presentValue equals `ref_value` at every probe instant between
    two firings (every 5 min and around every entry time), the task is always
    re-armed strictly in the future and never later than the next midnight.
"""
import calendar, datetime, json, os, time
from . import core

LEAN_TARGETS = ["BacVerif.Props.C20", "drv_c20"]
LEANCHECKER = ["BacVerif.Props.C20"]
LEVEL = "proof"
RULE = ("matchers: every day of a year x ~380 pattern classes (date: 15 month classes x 11 day classes, "
        "weekdays, specific/other year, out-of-range fields; weekNDay: 5 month x 12 week x 2 weekday classes; "
        "ranges: 8x8 end points incl. open, leap day, partial wildcards), all 255 years in thorough, one "
        "year in quick; schedules: 0..4 exceptions (priorities from a small pool so that they collide, "
        "entry/calendar-reference periods) x 0..4 time-values, 0..4 weekly entries per day, effective "
        "period open/half-open/closed around the sampled days, evaluated every minute and at every entry "
        "time +-1 hundredth; timer runs of 2..9 days from a random start instant with period entry/exit "
        "and property writes. distinct = (stream, shape class): pattern field classes for matchers, the "
        "set of value origins (out/default/weekly/exception) x number of transitions for evalday, "
        "period shape x step kinds x origins for runs; trivial = empty schedule")
TRUSTED = ["lean/BacVerif/Model/Schedule.lean is a hand transcription of local/schedule.py (after the "
           "five C20 fix patches) and of Date.now/Time.now; tied by the cal/now/year/evalday/evalbad/run streams",
           "time.mktime / time.localtime under TZ=UTC are modelled by the model's own calendar (dayNum / civil) "
           "and compared on every run; DST and other zones are not modelled: the `dst` stream checks the real "
           "interpreter there against the rule, trusting Python's/libc's time.localtime (instant -> wall clock) "
           "and time.mktime (probe instants only); nothing is demanded of the value during the two passes of "
           "the hour a backward change repeats (libc's choice for ambiguous times depends on its call history)",
           "LocalScheduleObject._check_reliability (type checks of the configuration) is not modelled: the "
           "harness reads `reliability` from the real object and the oracle demands noFaultDetected for every valid configuration",
           "the timer fires exactly at the installed deadline (C14); float seconds are compared after rounding to microseconds",
           "BACnet rule for equal priorities (lowest array index wins) recalled from 135 clause 12.24.8"]
ASSUMPTIONS = ["time lists sorted by time (SortedCfg; BACnet requires it) for the spec theorems and oracles; "
               "unsorted lists are covered by correspondence only",
               "entry times are specific (no 255) and event priorities are 1..16 for the liveness theorems; "
               "other values are covered by correspondence (the code raises / wraps to slot 16)",
               "dates 1970..2154 for timer runs (Time.now truncates toward zero for negative clocks)",
               "a write replaces one of weeklySchedule / exceptionSchedule / scheduleDefault / effectivePeriod by a "
               "valid value (in-place mutation of a property value is invisible to the monitors; a write that makes the "
               "configuration faulty is outside the property)"]

OFFSET_US = 2208988800 * 1000000      # 1900-01-01 -> 1970-01-01
D1900 = datetime.date(1900, 1, 1)
PV0 = 999
OPEN = [255, 255, 255, 255]

_env = {}


def env():
    """one virtual clock + one Application per process"""
    if _env:
        return _env
    from .vt import VT
    vt = VT.install(start=0.0)
    from bacpypes.app import Application
    from bacpypes.local.device import LocalDeviceObject
    from bacpypes.local.schedule import LocalScheduleObject
    from bacpypes.service.object import ReadWritePropertyServices
    from bacpypes.object import register_object_type, WritableProperty
    from bacpypes.constructeddata import ArrayOf, AnyAtomic
    from bacpypes.basetypes import DailySchedule, SpecialEvent, DateRange

    class App(Application, ReadWritePropertyServices):
        """no network below: responses of the services are collected"""

    @register_object_type(vendor_id=999)
    class WritableSchedule(LocalScheduleObject):
        """LocalScheduleObject whose configuration can be written through the WriteProperty service"""
        properties = [WritableProperty('weeklySchedule', ArrayOf(DailySchedule, 7)),
                      WritableProperty('exceptionSchedule', ArrayOf(SpecialEvent)),
                      WritableProperty('effectivePeriod', DateRange),
                      WritableProperty('scheduleDefault', AnyAtomic)]
    dev = LocalDeviceObject(objectName="dev", objectIdentifier=('device', 1),
                            maxApduLengthAccepted=1024, segmentationSupported='segmentedBoth',
                            vendorIdentifier=999)
    app = App(dev)
    responses = []
    app.response = responses.append
    _env.update(vt=vt, app=app, sched_class=WritableSchedule, responses=responses)
    return _env


def exc_kind(e):
    if isinstance(e, calendar.IllegalMonthError):
        return "month"
    t = type(e)
    if t is RuntimeError:
        return "runtime"
    if t is IndexError:
        return "index"
    if t is AttributeError:
        return "attr"
    return "python:" + t.__name__


def tup(d):
    return (d.year - 1900, d.month, d.day, d.isoweekday())


# ---------------------------------------------------------------- real objects

def mk_entry(e):
    from bacpypes.basetypes import CalendarEntry, DateRange
    k = e["k"]
    if k == "date":
        return CalendarEntry(date=tuple(e["p"]))
    if k == "range":
        return CalendarEntry(dateRange=DateRange(startDate=tuple(e["s"]), endDate=tuple(e["e"])))
    if k == "wnd":
        return CalendarEntry(weekNDay=bytes(e["v"]))
    return CalendarEntry()


def mk_val(v):
    """a schedule value: a token is a Real; {"int": n} is an Integer — the WRONG datatype in a
    schedule of Reals, which makes _check_reliability report configurationError"""
    from bacpypes.primitivedata import Null, Real, Integer
    if v is None:
        return Null()
    if isinstance(v, dict):
        return Integer(v["int"])
    return Real(float(v))


def mk_tvs(tvs):
    from bacpypes.basetypes import TimeValue
    return [TimeValue(time=tuple(t), value=mk_val(v)) for t, v in tvs]


def mk_weekly(weekly):
    from bacpypes.constructeddata import ArrayOf
    from bacpypes.basetypes import DailySchedule
    return ArrayOf(DailySchedule)([DailySchedule(daySchedule=mk_tvs(day)) for day in weekly])


def mk_exc(exc, cals, base=100):
    """cals: list collecting (instance, entries) of calendar objects to create"""
    from bacpypes.constructeddata import ArrayOf
    from bacpypes.basetypes import SpecialEvent, SpecialEventPeriod
    out = []
    for se in exc:
        p = se["p"]
        if p["k"] == "entry":
            period = SpecialEventPeriod(calendarEntry=mk_entry(p["e"]))
        elif p["k"] == "ref":
            if p["l"] is None:
                period = SpecialEventPeriod(calendarReference=('calendar', 4000))   # no such object
            else:
                inst = base + len(cals)
                cals.append((inst, p["l"], len(out)))
                period = SpecialEventPeriod(calendarReference=('calendar', inst))
        else:
            period = None
        out.append(SpecialEvent(period=period, listOfTimeValues=mk_tvs(se["tv"]), eventPriority=se["prio"]))
    return ArrayOf(SpecialEvent)(out)


class Real_:
    """a built schedule inside the process-wide Application"""

    def __init__(self, cfg, start=0.0, inst=1, reset=True):
        from bacpypes.primitivedata import Real
        from bacpypes.basetypes import DateRange
        from bacpypes.object import CalendarObject
        from bacpypes.local.schedule import LocalScheduleObject
        e = env()
        self.vt, self.app = e["vt"], e["app"]
        if reset:
            self.vt.reset(start)
        self.reset = reset
        self.base = 100 * inst
        self.objs = []
        self.cals = []
        kw = dict(objectIdentifier=('schedule', inst), objectName='sched%d' % inst, presentValue=Real(float(PV0)),
                  effectivePeriod=DateRange(startDate=tuple(cfg["eff"][0]), endDate=tuple(cfg["eff"][1])),
                  scheduleDefault=Real(float(cfg["def"])))
        if cfg["weekly"] is not None:
            kw["weeklySchedule"] = mk_weekly(cfg["weekly"])
        if cfg["exc"] is not None:
            kw["exceptionSchedule"] = mk_exc(cfg["exc"], self.cals, self.base)
        self.cal_of_exc = {}
        for inst, entries, idx in self.cals:
            self.cal_of_exc[idx] = self._add_cal(inst, entries)
        self.so = e["sched_class"](**kw)
        self.app.add_object(self.so)
        self.objs.append(self.so)

    def _add_cal(self, inst, entries):
        from bacpypes.object import CalendarObject
        cal = CalendarObject(objectIdentifier=('calendar', inst), objectName='cal%d' % inst,
                             presentValue=False, dateList=[mk_entry(x) for x in entries])
        self.app.add_object(cal)
        self.objs.append(cal)
        return cal

    def write(self, cfg):
        """write weeklySchedule / exceptionSchedule (whichever differs is enough: both are written)"""
        n0 = len(self.cals)
        exc = mk_exc(cfg["exc"], self.cals, self.base) if cfg["exc"] is not None else None
        self.cal_of_exc = {}
        for inst, entries, idx in self.cals[n0:]:
            self.cal_of_exc[idx] = self._add_cal(inst, entries)
        return exc

    def mutate(self, mod):
        """change state `eval` reads WITHOUT a write to a monitored property of the
        schedule object (so `schedule_changed` does not run)"""
        from bacpypes.basetypes import SpecialEventPeriod
        so, k = self.so, mod["k"]
        if k == "cal":
            cal = self.cal_of_exc[mod["exc"]]
            new = [mk_entry(x) for x in mod["l"]]
            if mod["how"] == "inplace":
                cal.dateList[:] = new
            else:
                cal.dateList = new                       # a write to the CALENDAR object
        elif k == "tvs":
            so.exceptionSchedule[mod["exc"] + 1].listOfTimeValues = mk_tvs(mod["tv"])
        elif k == "day":
            so.weeklySchedule[mod["w"] + 1].daySchedule = mk_tvs(mod["tv"])
        elif k == "prio":
            so.exceptionSchedule[mod["exc"] + 1].eventPriority = mod["prio"]
        elif k == "period":
            so.exceptionSchedule[mod["exc"] + 1].period = SpecialEventPeriod(calendarEntry=mk_entry(mod["e"]))
        elif k == "eff":
            so.effectivePeriod.startDate = tuple(mod["eff"][0])
            so.effectivePeriod.endDate = tuple(mod["eff"][1])
        elif k == "def":
            so.scheduleDefault.value = float(mod["def"])
        else:
            raise core.Infra("unknown mutation %r" % (mod,))

    def close(self):
        for o in self.objs:
            try:
                self.app.delete_object(o)
            except Exception:
                pass
        if self.reset:
            self.vt.reset(0.0)

    def edit_in_place(self, cur, new, how):
        """reconfigure by EDITING the stored configuration objects (the array, its
        DailySchedule / SpecialEvent elements, their lists) and then writing the very same
        object back: `so.weeklySchedule = so.weeklySchedule` or
        so.WriteProperty(prop, the stored object, direct=True)"""
        so = self.so
        if new["exc"] != cur["exc"]:
            prop, arr = 'exceptionSchedule', so.exceptionSchedule
            fresh = self.write(new)
            if len(new["exc"]) == len(cur["exc"]) and how.get("deep"):
                for i in range(len(new["exc"])):
                    if new["exc"][i] != cur["exc"][i]:
                        old_el, new_el = arr[i + 1], fresh[i + 1]
                        old_el.period = new_el.period
                        old_el.eventPriority = new_el.eventPriority
                        old_el.listOfTimeValues[:] = new_el.listOfTimeValues
            else:
                arr.value[1:] = fresh.value[1:]
                arr.value[0] = fresh.value[0]
        else:
            prop, arr = 'weeklySchedule', so.weeklySchedule
            for i in range(7):
                if new["weekly"][i] != cur["weekly"][i]:
                    if how.get("deep"):
                        arr[i + 1].daySchedule[:] = mk_tvs(new["weekly"][i])
                    else:
                        arr[i + 1].daySchedule = mk_tvs(new["weekly"][i])
        if how.get("via") == "direct":
            so.WriteProperty(prop, arr, direct=True)
        else:
            setattr(so, prop, arr)

    def service_write(self, prop, value, idx):
        """the WriteProperty service path: a WritePropertyRequest handed to the application"""
        from bacpypes.apdu import WritePropertyRequest, SimpleAckPDU
        from bacpypes.constructeddata import Any
        e = env()
        req = WritePropertyRequest(objectIdentifier=self.so.objectIdentifier, propertyIdentifier=prop)
        if idx is not None:
            req.propertyArrayIndex = idx
        req.propertyValue = Any()
        req.propertyValue.cast_in(value)
        req.pduSource = None
        del e["responses"][:]
        self.app.do_WritePropertyRequest(req)
        if not e["responses"] or not isinstance(e["responses"][-1], SimpleAckPDU):
            raise core.Infra("service write of %s[%r] refused: %r" % (prop, idx, e["responses"][-1:]))

    def write_one(self, cur, new, how=None):
        """one property per write (the first that differs in the order exc, def, eff, weekly);
        writing one that did not change re-evaluates as well.  `how`: None = assign the whole
        property; {"k": "wk"|"exc", "i": n} = ONE array element by index; {"k": "exc0", "n": len}
        = resize through index 0; {"k": "whole"} = whole property; "path": "direct" =
        obj.WriteProperty(..., direct=True), "service" = WritePropertyRequest;
        {"k": "addcal", "l": entries} = create the calendar object a dangling reference names,
        then write exceptionSchedule again with the same references"""
        from bacpypes.primitivedata import Real, Unsigned
        from bacpypes.basetypes import DateRange, DailySchedule
        so = self.so
        if how is not None and how["k"] == "addcal":
            self._add_cal(4000, how["l"])
            so.exceptionSchedule = self.write(cur)
            return
        if how is not None and how["k"] in ("wk", "exc", "exc0"):
            if how["k"] == "wk":
                prop, idx = 'weeklySchedule', how["i"]
                value = DailySchedule(daySchedule=mk_tvs(new["weekly"][idx - 1]))
            elif how["k"] == "exc":
                prop, idx = 'exceptionSchedule', how["i"]
                value = self.write({"exc": [new["exc"][idx - 1]]})[1]
            else:
                prop, idx = 'exceptionSchedule', 0
                value = how["n"] if how["path"] == "direct" else Unsigned(how["n"])
            if how["path"] == "direct":
                so.WriteProperty(prop, value, arrayIndex=idx, direct=True)
            else:
                self.service_write(prop, value, idx)
            return
        if how is not None and how["k"] == "inplace":
            self.edit_in_place(cur, new, how)
            return
        service = how is not None and how.get("path") == "service"
        if new["exc"] != cur["exc"]:
            so.exceptionSchedule = self.write(new)
        elif new["def"] != cur["def"]:
            if service:
                self.service_write('scheduleDefault', Real(float(new["def"])), None)
            else:
                so.scheduleDefault = mk_val(new["def"])
        elif new["eff"] != cur["eff"]:
            v = DateRange(startDate=tuple(new["eff"][0]), endDate=tuple(new["eff"][1]))
            if service:
                self.service_write('effectivePeriod', v, None)
            else:
                so.effectivePeriod = v
        else:
            so.weeklySchedule = mk_weekly(new["weekly"]) if new["weekly"] is not None else None

    def eval(self, d, t):
        try:
            r = self.so._task.eval(tuple(d), tuple(t))
        except Exception as e:
            return {"err": exc_kind(e)}
        if r is None:
            return None
        v, n = r
        return [tok(v)] + list(n)


def tok(v):
    x = v.value
    return int(x) if float(x) == int(x) else "float:%r" % (x,)


# ---------------------------------------------------------------- independent oracles

def last_day(d):
    return (d + datetime.timedelta(days=1)).month != d.month


def den_month(mp, d):
    if mp == 255:
        return True
    if mp == 13:
        return d.month % 2 == 1
    if mp == 14:
        return d.month % 2 == 0
    return 1 <= mp <= 12 and d.month == mp


def denotes(e, d):
    """BACnet meaning of a calendar entry for datetime.date d; None = no opinion
    (field value the standard does not define)"""
    k = e["k"]
    if k == "date":
        y, m, dd, w = e["p"]
        if y != 255 and y + 1900 != d.year:
            return False
        if not den_month(m, d):
            return False
        if dd == 255:
            pass
        elif dd == 32:
            if not last_day(d):
                return False
        elif dd == 33:
            if d.day % 2 != 1:
                return False
        elif dd == 34:
            if d.day % 2 != 0:
                return False
        elif not (1 <= dd <= 31 and d.day == dd):
            return False
        return w == 255 or (1 <= w <= 7 and d.isoweekday() == w)
    if k == "range":
        lo, hi = e["s"][:3], e["e"][:3]
        for end, sign in ((lo, 1), (hi, -1)):
            if end == [255, 255, 255]:
                continue
            try:
                ed = datetime.date(end[0] + 1900, end[1], end[2])
            except ValueError:
                return None
            if 255 in end:
                return None
            if sign == 1 and d < ed:
                return False
            if sign == -1 and d > ed:
                return False
        return True
    if k == "wnd":
        mp, wp, dp = e["v"]
        if not den_month(mp, d):
            return False
        if wp == 255:
            pass
        elif 1 <= wp <= 5:
            if (d.day - 1) // 7 + 1 != wp:
                return False
        elif 6 <= wp <= 9:
            # how many whole weeks lie between this day and the end of the month
            first_of_next = (d.replace(day=28) + datetime.timedelta(days=4)).replace(day=1)
            n = (first_of_next - d).days - 1
            if n // 7 != wp - 6:
                return False
        else:
            return None
        return dp == 255 or (1 <= dp <= 7 and d.isoweekday() == dp)
    return None


def wf_end(p):
    if p[:3] == [255, 255, 255]:
        return True
    if 255 in p[:3]:
        return False
    try:
        datetime.date(p[0] + 1900, p[1], p[2])
        return True
    except ValueError:
        return False


def wf_entry(e):
    """the entries the standard gives a meaning to (mirrors WFEntry of the Lean spec)"""
    if e["k"] == "date":
        return True
    if e["k"] == "range":
        return wf_end(e["s"]) and wf_end(e["e"])
    if e["k"] == "wnd":
        return e["v"][1] == 255 or 1 <= e["v"][1] <= 9
    return False


def latest(tvs, t):
    best = None
    for i, (tm, v) in enumerate(tvs):
        if tuple(tm) <= tuple(t) and (best is None or (tuple(tm), i) >= best[0]):
            best = ((tuple(tm), i), v)
    return best


def in_force(se, d):
    p = se["p"]
    if p["k"] == "entry":
        return denotes(p["e"], d)
    if p["k"] == "ref" and p["l"] is not None:
        rs = [denotes(x, d) for x in p["l"]]
        if True in rs:
            return True
        return None if None in rs else False
    return None


def ref_day(cfg, d):
    """the value BACnet prescribes on day d as a function of the time;
    'out' outside the effective period; None = no opinion"""
    eff = denotes({"k": "range", "s": cfg["eff"][0], "e": cfg["eff"][1]}, d)
    if eff is None:
        return lambda t: None
    if not eff:
        return lambda t: "out"
    forced = []
    for idx, se in enumerate(cfg["exc"] or []):
        f = in_force(se, d)
        if f is None or not (1 <= se["prio"] <= 16):
            return lambda t: None
        if f:
            forced.append((se["prio"], idx, se["tv"]))
    day = None
    if cfg["weekly"]:
        if len(cfg["weekly"]) != 7:
            return lambda t: None
        day = cfg["weekly"][d.isoweekday() - 1]

    def at(t):
        cands = []
        for prio, idx, tvs in forced:
            cur = latest(tvs, t)
            if cur is not None and cur[1] is not None:
                cands.append((prio, idx, cur[1]))
        if cands:
            return min(cands)[2]
        if day is not None:
            cur = latest(day, t)
            if cur is not None and cur[1] is not None:
                return cur[1]
        return cfg["def"]
    return at


def ref_value(cfg, d, t):
    return ref_day(cfg, d)(t)


# ---------------------------------------------------------------- matcher streams

def pat_class(e):
    def mc(m):
        return "any" if m == 255 else "odd" if m == 13 else "even" if m == 14 else "m" if 1 <= m <= 12 else "bad"

    def wc(w):
        return "any" if w == 255 else "w" if 1 <= w <= 7 else "bad"
    k = e["k"]
    if k == "date":
        y, m, d, w = e["p"]
        dc = "any" if d == 255 else {32: "last", 33: "odd", 34: "even"}.get(d, "d%d" % d if 28 <= d <= 31 else "d" if 1 <= d <= 27 else "bad")
        return ("date", "any" if y == 255 else "y", mc(m), dc, wc(w))
    if k == "range":
        def ec(p):
            return "open" if p[:3] == [255, 255, 255] else "part" if 255 in p[:3] else "d"
        return ("range", ec(e["s"]), ec(e["e"]))
    if k == "wnd":
        mp, wp, dp = e["v"]
        return ("wnd", mc(mp), wp if wp <= 10 or wp == 255 else "bad", wc(dp))
    return (k,)


def patterns_for_year(y, rng):
    """the pattern classes, instantiated for year 1900+y"""
    out = []
    months = [255, 13, 14] + list(range(1, 13))
    days = [255, 32, 33, 34, 1, 28, 29, 30, 31, rng.randrange(2, 28), rng.randrange(2, 28)]
    for m in months:
        for d in days:
            out.append({"k": "date", "p": [255, m, d, 255]})
    for w in range(1, 8):
        out.append({"k": "date", "p": [255, 255, 255, w]})
        out.append({"k": "date", "p": [255, rng.choice([13, 14]), rng.choice([32, 33, 34]), w]})
    oy = y + rng.choice([-1, 1]) if 0 < y < 254 else (1 if y == 0 else 253)
    out += [{"k": "date", "p": [y, 255, 255, 255]}, {"k": "date", "p": [oy, 255, 255, 255]},
            {"k": "date", "p": [y, 2, 32, 255]}, {"k": "date", "p": [y, 14, 34, rng.randrange(1, 8)]},
            {"k": "date", "p": [y, rng.randrange(1, 13), rng.randrange(1, 29), 255]},
            {"k": "date", "p": [oy, 2, 29, 255]}]
    out += [{"k": "date", "p": p} for p in ([255, 0, 255, 255], [255, 15, 255, 255], [255, 255, 0, 255],
                                            [255, 255, 35, 255], [255, 255, 255, 0], [255, 255, 255, 8])]
    for mp in [255, 13, 14, 2, rng.randrange(1, 13)]:
        for wp in [255, 1, 2, 3, 4, 5, 6, 7, 8, 9, 0, 10]:
            for dp in [255, rng.randrange(1, 8)]:
                out.append({"k": "wnd", "v": [mp, wp, dp]})
    rm, rd = rng.randrange(1, 13), rng.randrange(1, 29)
    ends = [OPEN, [y, 1, 1, 255], [y, 12, 31, 255], [y, 2, 28, 255], [y, 2, 29, 255],
            [y, rm, rd, 255], [oy, 6, 15, 255], [255, 6, 255, 255]]
    for s in ends:
        for e in ends:
            out.append({"k": "range", "s": s, "e": e})
    return out


def year_cases(y, rng):
    return [{"op": "year", "y": y, "e": e} for e in patterns_for_year(y, rng)]


def focus_patterns(y):
    """the patterns whose meaning depends on the length of the month / leap years:
    run for ALL 255 years even in the quick tier"""
    return [{"k": "date", "p": [255, 2, 32, 255]}, {"k": "date", "p": [255, 255, 32, 255]},
            {"k": "date", "p": [y, 14, 32, 255]}, {"k": "wnd", "v": [255, 6, 255]},
            {"k": "wnd", "v": [2, 9, 255]}, {"k": "wnd", "v": [255, 7, 3]}, {"k": "wnd", "v": [2, 8, 255]},
            {"k": "range", "s": [y, 2, 28, 255], "e": [y, 3, 1, 255]},
            {"k": "range", "s": list(OPEN), "e": [y, 2, 28, 255]}]


def days_of(y):
    d = datetime.date(1900 + y, 1, 1)
    out = []
    while d.year == 1900 + y:
        out.append(d)
        d += datetime.timedelta(days=1)
    return out


def impl_year(case, days):
    from bacpypes.local.schedule import date_in_calendar_entry
    entry = mk_entry(case["e"])
    bits = []
    for d in days:
        try:
            bits.append("1" if date_in_calendar_entry(tup(d), entry) else "0")
        except Exception as e:
            k = exc_kind(e)
            bits.append("e" if not k.startswith("python:") else "X")
    return {"r": "ok", "bits": "".join(bits)}


def oracle_year(ctx, case, a, days, den=None):
    for i, (d, b) in enumerate(zip(days, a["bits"])):
        want = den[i] if den is not None else denotes(case["e"], d)
        if want is None:
            continue
        if b != ("1" if want else "0"):
            ctx.fail("matcher", {"stream": "year", "case": case},
                     "date %s %s pattern %s but the matcher says %s" % (
                         d.isoformat(), "is denoted by" if want else "is not denoted by",
                         json.dumps(case["e"]), b), date=d.isoformat())
            return


def run_years(ctx, years, label, focus=False):
    drv = core.Driver("drv_c20") if ctx.model_ok else None
    cases, impl, dens = [], [], []
    for y in years:
        rng = ctx.sub_rng("pat-%d" % y)
        days = days_of(y)
        for c in ([{"op": "year", "y": y, "e": e} for e in focus_patterns(y)] if focus else year_cases(y, rng)):
            a = impl_year(c, days)
            den = [denotes(c["e"], d) for d in days]
            oracle_year(ctx, c, a, days, den)
            cases.append(c); impl.append(a)
            dens.append("".join({True: "1", False: "0", None: "?"}[x] for x in den)
                        if wf_entry(c["e"]) else "-" * len(days))
    if drv:
        ctx.compare_stream(label, cases, impl, drv.ask(cases), sig=lambda c, m: pat_class(c["e"]))
        # the Lean-side declarative meaning (DenotesEntry) against the Python-side one (denotes)
        scases = [dict(c, op="yearspec") for c in cases]
        sref = [{"r": "ok", "bits": b} for b in dens]
        ctx.compare_stream(label + "-spec", scases, sref, drv.ask(scases),
                           sig=lambda c, m: pat_class(c["e"]))
    else:
        for c in cases:
            ctx.count(label)
    # each case is one pattern against every day of a year
    ctx.evaluations += sum(len(a["bits"]) - 1 for a in impl)
    ctx.sample({"stream": label, "case": cases[0], "impl": impl[0]["bits"][:40] + "..."})


def shard_years(ctx, spec):
    set_tz("UTC")
    env()
    run_years(ctx, spec, "year")


def cal_case(y):
    days = days_of(y)
    return {"r": "ok", "first": (days[0] - D1900).days, "leap": calendar.isleap(1900 + y),
            "days": [[d.month, d.day, d.isoweekday()] for d in days]}


def run_cal(ctx, years):
    cases = [{"op": "cal", "y": y} for y in years]
    ref = [cal_case(y) for y in years]
    # month lengths as calendar.monthrange (what the code calls) sees them
    for y, r in zip(years, ref):
        for m in range(1, 13):
            n = sum(1 for x in r["days"] if x[0] == m)
            if n != calendar.monthrange(1900 + y, m)[1]:
                raise core.Infra("datetime and calendar disagree?!")
    if ctx.model_ok:
        ctx.compare_stream("cal", cases, ref, core.Driver("drv_c20").ask(cases),
                           sig=lambda c, m: (m.get("leap"), m["days"][0][2] if m.get("days") else None))
    ctx.evaluations += sum(len(r["days"]) for r in ref)


def run_now(ctx, rng):
    """Date.now / Time.now / datetime_to_time against the model's clock"""
    from bacpypes.primitivedata import Date, Time
    from bacpypes.local.schedule import datetime_to_time
    cases, impl = [], []
    n = 400 if ctx.quick else 6000
    for i in range(n):
        day = rng.randrange(0, 67500)             # 1970 .. 2154
        sec = rng.choice([0, 1, 59, 60, 3599, 3600, 86399, rng.randrange(86400)])
        hs = rng.choice([0, 1, 29, 50, 57, 99, rng.randrange(100)])
        sub = rng.choice([0, 0, 0.004])
        when = day * 86400 + sec + hs / 100.0 + sub
        us = int(round(when * 1e6)) + OFFSET_US
        cases.append({"op": "now", "t": us})
        impl.append({"r": "ok", "d": list(Date().now(when).value), "t": list(Time().now(when).value)})
        # and back
        d, t = Date().now(when).value, Time().now(when).value
        if i % 7 == 0:
            t = (24, 0, 0, 0)
        if i % 31 == 0:
            t = (t[0], 255, t[2], t[3])
        cases.append({"op": "dt", "d": list(d), "t": list(t)})
        try:
            impl.append({"r": "ok", "v": int(round(datetime_to_time(d, t) * 1e6)) + OFFSET_US})
        except Exception as e:
            impl.append({"r": "err", "k": exc_kind(e)})
    if ctx.model_ok:
        ctx.compare_stream("now", cases, impl, core.Driver("drv_c20").ask(cases),
                           sig=lambda c, m: (c["op"], m.get("r"), (m.get("t") or [0, 0, 0, 0])[3] == 0))
    else:
        ctx.count("now", n=len(cases))


# ---------------------------------------------------------------- schedule generators

def gen_time(rng):
    r = rng.random()
    if r < 0.45:
        return [rng.randrange(24), rng.choice([0, 0, 15, 30, 45]), 0, 0]
    if r < 0.75:
        return [rng.randrange(24), rng.randrange(60), 0, 0]
    if r < 0.85:
        return rng.choice([[0, 0, 0, 0], [23, 59, 59, 99], [23, 59, 0, 0], [0, 0, 0, 1], [12, 0, 0, 0]])
    return [rng.randrange(24), rng.randrange(60), rng.randrange(60), rng.choice([0, 1, 29, 50, 57, 99, rng.randrange(100)])]


def gen_tvs(rng, n, base, whole_seconds=False):
    ts = sorted(gen_time(rng) for _ in range(n))
    if whole_seconds:
        ts = sorted([t[0], t[1], t[2], 0] for t in ts)
    return [[t, None if rng.random() < 0.25 else base + j] for j, t in enumerate(ts)]


def gen_date_pattern(rng, focus):
    y, m, d, w = tup(focus)
    return [rng.choice([255, 255, y]), rng.choice([255, 255, m, 13 if m % 2 else 14, rng.randrange(1, 13)]),
            rng.choice([255, 255, d, 33 if d % 2 else 34, 32, rng.randrange(1, 29)]),
            rng.choice([255, 255, 255, w, rng.randrange(1, 8)])]


def gen_end(rng, focus, sign):
    r = rng.random()
    if r < 0.3:
        return list(OPEN)
    d = focus + datetime.timedelta(days=sign * rng.choice([0, 0, 1, 1, 2, 3, 40, 400]) - rng.choice([0, 0, 0, 1]))
    if not (1900 <= d.year <= 2154):
        d = focus
    return [d.year - 1900, d.month, d.day, rng.choice([255, d.isoweekday()])]


def gen_entry(rng, focus):
    r = rng.random()
    if r < 0.45:
        return {"k": "date", "p": gen_date_pattern(rng, focus)}
    if r < 0.75:
        return {"k": "range", "s": gen_end(rng, focus, -1), "e": gen_end(rng, focus, +1)}
    wk = (focus.day - 1) // 7 + 1
    return {"k": "wnd", "v": [rng.choice([255, 255, focus.month, 13, 14]),
                              rng.choice([255, wk, wk, rng.randrange(1, 10)]),
                              rng.choice([255, 255, focus.isoweekday(), rng.randrange(1, 8)])]}


def gen_cfg(rng, focus, whole_seconds=False, span=3):
    """a valid, sorted configuration whose periods cluster around `focus`"""
    r = rng.random()
    if r < 0.3:
        eff = [list(OPEN), list(OPEN)]
    elif r < 0.45:
        eff = [list(OPEN), gen_end(rng, focus, +1)]
    elif r < 0.6:
        eff = [gen_end(rng, focus, -1), list(OPEN)]
    else:
        s = focus + datetime.timedelta(days=rng.choice([-400, -2, -1, 0, 1, 2]))
        e = s + datetime.timedelta(days=rng.choice([0, 1, 2, 3, 5, 800]))
        if s.year < 1900 or e.year > 2154:
            s, e = focus, focus
        eff = [[s.year - 1900, s.month, s.day, 255], [e.year - 1900, e.month, e.day, 255]]
    weekly = None
    if rng.random() < 0.85:
        weekly = [gen_tvs(rng, rng.randrange(0, 5), 100 + 10 * i, whole_seconds) for i in range(7)]
    exc = None
    if rng.random() < 0.85:
        exc = []
        pool = rng.choice([[1, 2, 3, 16], [5, 5, 5, 8], [16, 1, 7, 7], list(range(1, 17))])
        for k in range(rng.randrange(0, 5)):
            focus_k = focus + datetime.timedelta(days=rng.randrange(0, span))
            if rng.random() < 0.75:
                p = {"k": "entry", "e": gen_entry(rng, focus_k)}
            else:
                p = {"k": "ref", "l": [gen_entry(rng, focus_k) for _ in range(rng.randrange(0, 4))]}
            exc.append({"p": p, "tv": gen_tvs(rng, rng.randrange(0, 5), 1000 + 10 * k, whole_seconds),
                        "prio": rng.choice(pool)})
    if weekly is None and exc is None:
        exc = []                      # BACnet (and _check_reliability) want at least one of the two
    return {"eff": eff, "weekly": weekly, "exc": exc, "def": 0}


def gen_bad_cfg(rng, focus):
    """malformed on purpose: correspondence only"""
    cfg = gen_cfg(rng, focus)
    if cfg["exc"] is None:
        cfg["exc"] = []
    if not cfg["exc"] or rng.random() < 0.5:
        cfg["exc"].append({"p": {"k": "entry", "e": {"k": "date", "p": list(OPEN)}},
                           "tv": gen_tvs(rng, 3, 2000), "prio": rng.choice([1, 5, 16])})
    kind = rng.randrange(8)
    se = rng.choice(cfg["exc"])
    if kind == 0:
        rng.shuffle(se["tv"])
        if cfg["weekly"]:
            for day in cfg["weekly"]:
                rng.shuffle(day)
    elif kind == 1:
        se["prio"] = rng.choice([0, 17, 255])
    elif kind == 2:
        se["p"] = {"k": "ref", "l": None}
    elif kind == 3:
        se["p"] = rng.choice([{"k": "entry", "e": {"k": "empty"}}, {"k": "ref", "l": [{"k": "empty"}]},
                              {"k": "ref", "l": [{"k": "date", "p": list(OPEN)}, {"k": "empty"}]},
                              {"k": "missing"}])
    elif kind == 4:
        for tv in se["tv"]:
            tv[0][rng.randrange(4)] = 255
    elif kind == 5:
        cfg["weekly"] = [gen_tvs(rng, 2, 100 + 10 * i) for i in range(rng.choice([0, 3, 6]))]
        cfg["exc"] = None if rng.random() < 0.5 else cfg["exc"]
    elif kind == 6:
        cfg["eff"] = [rng.choice([[255, 1, 1, 255], [70, 255, 255, 255], list(OPEN)]),
                      rng.choice([[255, 12, 31, 255], [254, 255, 1, 255], [0, 1, 1, 255]])]
    return cfg, kind


def day_times(cfg, step=1):
    ts = [[h, m, 0, 0] for h in range(24) for m in range(0, 60, step)]
    extra = set()
    lists = list(cfg["weekly"] or []) + [se["tv"] for se in (cfg["exc"] or [])]
    for l in lists:
        for t, _v in l:
            if 255 in t or t[0] > 23:
                continue
            cs = ((t[0] * 60 + t[1]) * 60 + t[2]) * 100 + t[3]
            for c in (cs - 1, cs, cs + 1):
                if 0 <= c < 8640000:
                    extra.add(c)
    for c in extra:
        ts.append([c // 360000, c // 6000 % 60, c // 100 % 60, c % 100])
    ts.append([23, 59, 59, 99])
    return sorted(set(map(tuple, ts)))


def origin(v):
    if v is None:
        return "out"
    if isinstance(v, dict):
        return "err:" + v["err"]
    x = v[0]
    return "default" if x < 100 else "weekly" if x < 1000 else "exc"


def sig_evalday(case, m):
    res = m.get("res") or []
    kinds = sorted(set(origin(v) for v in res))
    ntr = len(set(tuple(v[1:]) for v in res if isinstance(v, list)))
    return (tuple(kinds), min(ntr, 6), len(case["cfg"]["exc"] or []))


def oracle_evalday(ctx, case, res, d, wants=None, where=None):
    """value = BACnet rule; next transition strictly later; nothing changes before it"""
    cfg, times = case["cfg"], case["times"]
    where = where or {"stream": "evalday", "case": {k: case[k] for k in ("op", "cfg", "d")}}
    if wants is None:
        at = ref_day(cfg, d)
        wants = [at(t) for t in times]
    if wants and wants[0] is None:
        return
    prev_i = None
    for i, (t, r) in enumerate(zip(times, res)):
        want = wants[i]
        if isinstance(r, dict):
            ctx.fail("eval-raised", where, "eval%r raised %s on a valid configuration" % (tuple(t), r["err"]), time=list(t))
            return
        got = "out" if r is None else r[0]
        if got != want:
            ctx.fail("wrong-value", where, "at %s %r eval gives %r, BACnet prescribes %r" % (
                d.isoformat(), tuple(t), got, want), time=list(t))
            return
        if r is None:
            continue
        nxt = tuple(r[1:])
        if not nxt > tuple(t):
            ctx.fail("next-not-later", where, "at %r next transition %r is not later" % (tuple(t), nxt), time=list(t))
            return
        if nxt > (24, 0, 0, 0):
            ctx.fail("next-beyond-midnight", where, "at %r next transition %r" % (tuple(t), nxt), time=list(t))
            return
        # nothing may change before the transition reported at the previous change point
        if prev_i is not None:
            p = res[prev_i]
            if tuple(t) < tuple(p[1:]):
                if r[0] != p[0]:
                    ctx.fail("stale-before-next", where,
                             "eval at %r said value %r until %r, but at %r the value is %r" % (
                                 tuple(times[prev_i]), p[0], tuple(p[1:]), tuple(t), r[0]),
                             time=list(times[prev_i]))
                    return
                continue
        prev_i = i


MODES = ["asc", "desc", "shuffle", "probe-back", "alt-desc", "alt-shuffle"]


def apply_mod(cfg, mod):
    """the configuration after an in-place mutation (see Real_.mutate)"""
    cfg = json.loads(json.dumps(cfg))
    k = mod["k"]
    if k == "cal":
        cfg["exc"][mod["exc"]]["p"]["l"] = mod["l"]
    elif k == "tvs":
        cfg["exc"][mod["exc"]]["tv"] = mod["tv"]
    elif k == "day":
        cfg["weekly"][mod["w"]] = mod["tv"]
    elif k == "prio":
        cfg["exc"][mod["exc"]]["prio"] = mod["prio"]
    elif k == "period":
        cfg["exc"][mod["exc"]]["p"] = {"k": "entry", "e": mod["e"]}
    elif k == "eff":
        cfg["eff"] = mod["eff"]
    elif k == "def":
        cfg["def"] = mod["def"]
    return cfg


def gen_mod(rng, cfg, focus, ndays):
    """one mutation of state that `eval` reads but no monitor of the schedule object sees"""
    exc = cfg["exc"] or []
    refs = [i for i, se in enumerate(exc) if se["p"]["k"] == "ref" and se["p"]["l"] is not None]
    ents = [i for i, se in enumerate(exc) if se["p"]["k"] == "entry"]
    fk = focus + datetime.timedelta(days=rng.randrange(0, ndays))
    r = rng.random()
    if refs and r < 0.5:
        i = rng.choice(refs)
        old = exc[i]["p"]["l"]
        new = rng.choice([[], [{"k": "date", "p": list(OPEN)}], [gen_entry(rng, fk)], old + [gen_entry(rng, fk)],
                          old[1:], [{"k": "date", "p": list(tup(fk))}]])
        if new == old:
            new = [] if old else [{"k": "date", "p": list(OPEN)}]
        return {"k": "cal", "exc": i, "l": new, "how": rng.choice(["write", "inplace"])}
    if exc and r < 0.65:
        i = rng.randrange(len(exc))
        return {"k": "tvs", "exc": i, "tv": gen_tvs(rng, rng.randrange(0, 5), 1500 + 10 * i)}
    if exc and r < 0.72:
        return {"k": "prio", "exc": rng.randrange(len(exc)), "prio": rng.choice([1, 5, 7, 16])}
    if ents and r < 0.8:
        return {"k": "period", "exc": rng.choice(ents), "e": gen_entry(rng, fk)}
    if cfg["weekly"] and r < 0.9:
        return {"k": "day", "w": rng.randrange(7), "tv": gen_tvs(rng, rng.randrange(0, 5), 500 + 10 * rng.randrange(7))}
    if r < 0.95:
        return {"k": "def", "def": rng.choice([d for d in (0, 1, 2, 3) if d != cfg["def"]])}
    return {"k": "eff", "eff": rng.choice([[list(OPEN), list(OPEN)], [list(tup(fk))[:3] + [255], list(OPEN)],
                                           [list(OPEN), list(tup(fk))[:3] + [255]]])}


def gen_group(rng, n_days):
    """one configuration, the days it is asked about, the order of the questions and the
    in-place mutations between the rounds of questions — all on ONE interpreter object"""
    focus = D1900 + datetime.timedelta(days=rng.choice([rng.randrange(0, 93138), rng.randrange(25567, 60000)]))
    if rng.random() < 0.1:      # around a leap day / year end
        yy = rng.choice([1904, 2000, 2024, 2100, 1900, 2154])
        focus = rng.choice([datetime.date(yy, 2, 28), datetime.date(yy, 12, 31), datetime.date(yy, 3, 1) - datetime.timedelta(days=1)])
    if focus.year > 2154 or (focus.year == 2154 and focus.month == 12 and focus.day > 25):
        focus = datetime.date(2154, 12, 20)
    cfg = gen_cfg(rng, focus)
    if rng.random() < 0.4:
        # an exception that is in force through a calendar object (so that calendar changes matter)
        se = {"p": {"k": "ref", "l": rng.choice([[{"k": "date", "p": list(OPEN)}], [], [gen_entry(rng, focus)]])},
              "tv": gen_tvs(rng, rng.randrange(1, 4), 1040), "prio": rng.choice([1, 5, 7, 16])}
        cfg["exc"] = (cfg["exc"] or [])[:3] + [se]
    g = {"cfg": cfg, "days": [list(tup(focus + datetime.timedelta(days=k))) for k in range(n_days)],
         "mode": rng.choice(MODES), "seed": rng.randrange(1 << 30), "mods": []}
    cur = cfg
    for _ in range(rng.choice([0, 0, 2, 4, 6])):
        m = gen_mod(rng, cur, focus, n_days)
        g["mods"].append(m)
        cur = apply_mod(cur, m)
    return g


def ask_in_order(ctx, real, g, ph, days, times, rnd, where):
    """evaluate every (day, time) on the SAME interpreter in the group's order;
    returns res[k][i]; any question asked twice must get the same answer"""
    nd, nt = len(days), len(times)
    mode = g["mode"]
    q = [(k, i) for k in range(nd) for i in range(nt)]
    if mode == "desc":
        q.reverse()
    elif mode == "shuffle":
        rnd.shuffle(q)
    elif mode == "alt-desc":
        q = [(k, i) for i in reversed(range(nt)) for k in range(nd)]
    elif mode == "alt-shuffle":
        idx = list(range(nt)); rnd.shuffle(idx)
        q = [(k, i) for i in idx for k in range(nd)]
    res = [[None] * nt for _ in range(nd)]
    told = [False]

    def differs(k, i, first, again, how):
        if not told[0]:
            told[0] = True
            ctx.fail("eval-depends-on-history", where,
                     "eval(%r, %r) answered %r, then %r %s — same object, same configuration" % (
                         tuple(days[k]), tuple(times[i]), first, again, how), phase=ph, time=list(times[i]))
    for n, (k, i) in enumerate(q):
        r = real.eval(days[k], times[i])
        if mode == "probe-back" and n % 3 == 0 and isinstance(r, list):
            nxt = r[1:]
            if tuple(nxt) < (24, 0, 0, 0):
                real.eval(days[k], nxt)                    # look at the transition ...
                again = real.eval(days[k], times[i])       # ... and come back
                if again != r:
                    differs(k, i, r, again, "after looking at the reported transition")
                r = again
        res[k][i] = r
    # a second, sparse pass in the opposite direction
    back = q[::-1][::17] if mode in ("asc", "probe-back") else q[::23]
    for (k, i) in back:
        again = real.eval(days[k], times[i])
        if again != res[k][i]:
            differs(k, i, res[k][i], again, "when asked again later")
            res[k][i] = again
    return res


def pick_affected(rnd, old, new, dates):
    """an instant (day index, time) at which the mutation changes the prescribed value
    (a random one if it changes nothing on the sampled days)"""
    grid = [[h, m, 0, 0] for h in range(24) for m in range(0, 60, 5)]
    for cfg in (old, new):
        for l in list(cfg["weekly"] or []) + [se["tv"] for se in (cfg["exc"] or [])]:
            grid += [t for t, _v in l if 255 not in t and t[0] < 24]
    hits = []
    for k, d in enumerate(dates):
        a, b = ref_day(old, d), ref_day(new, d)
        hits += [(k, t) for t in grid if a(t) != b(t)]
    if hits:
        return rnd.choice(hits), True
    return (rnd.randrange(len(dates)), rnd.choice(grid)), False


def run_group(ctx, g, label, cases, impl, wants):
    """phase 0: every instant of every day in the group's order; then for every mutation:
    ask about an instant the mutation affects, mutate in place, ask the SAME instant (and a
    few later ones) again at once; finally every instant once more under the final state"""
    cfg = g["cfg"]
    where = {"stream": "evalseq", "case": g}
    real = Real_(cfg)
    if real.so.reliability != 'noFaultDetected':
        ctx.fail("valid-config-flagged", where,
                 "a valid configuration is flagged %s: the interpreter never runs" % real.so.reliability)
    import random as _random
    rnd = _random.Random(g["seed"])
    dates = [datetime.date(d[0] + 1900, d[1], d[2]) for d in g["days"]]

    def full(ph, mod):
        times = [list(t) for t in day_times(cfg)]
        res = ask_in_order(ctx, real, g, ph, g["days"], times, rnd, where)
        for k, d in enumerate(dates):
            c = {"op": "evalday", "cfg": cfg, "d": g["days"][k], "times": times,
                 "mode": g["mode"], "phase": ph, "mod": mod}
            at = ref_day(cfg, d)
            w = [at(t) for t in times]
            wants.append(w)
            oracle_evalday(ctx, c, res[k], d, w, where=dict(where, phase=ph, d=g["days"][k]))
            cases.append(c); impl.append({"r": "ok", "res": res[k]})

    full(0, None)
    for j, mod in enumerate(g["mods"]):
        new = apply_mod(cfg, mod)
        (k, t), affected = pick_affected(rnd, cfg, new, dates)
        before = real.eval(g["days"][k], t)            # the last question before the mutation
        want0 = ref_day(cfg, dates[k])(t)
        if want0 is not None and not isinstance(before, dict) and ("out" if before is None else before[0]) != want0:
            ctx.fail("wrong-value", dict(where, phase=j + 1, d=g["days"][k]),
                     "before mutation %d: at %s %r eval gives %r, BACnet prescribes %r" % (
                         j, dates[k].isoformat(), tuple(t), before, want0), time=list(t))
        real.mutate(mod)
        cfg = new
        cs = ((t[0] * 60 + t[1]) * 60 + t[2]) * 100 + t[3]
        later = sorted(set([cs] + [min(8639999, cs + x) for x in (1, rnd.randrange(2, 6000), rnd.randrange(6000, 360000))]))
        times = [[c // 360000, c // 6000 % 60, c // 100 % 60, c % 100] for c in later]
        res = [real.eval(g["days"][k], x) for x in times]   # the same instant first, at once
        c = {"op": "evalday", "cfg": cfg, "d": g["days"][k], "times": times,
             "mode": "after-" + mod["k"], "phase": j + 1, "mod": mod["k"] + ("+" if affected else "-")}
        at = ref_day(cfg, dates[k])
        w = [at(x) for x in times]
        wants.append(w)
        oracle_evalday(ctx, c, res, dates[k], w, where=dict(where, phase=j + 1, d=g["days"][k],
                                                             after_mutation=mod))
        cases.append(c); impl.append({"r": "ok", "res": res})
    if g["mods"]:
        full(len(g["mods"]) + 1, "final")
    real.close()


def sig_evalseq(case, m):
    return (case.get("mode"), case.get("mod")) + sig_evalday(case, m)


def run_evalday(ctx, rng, n_cfg, n_days, label="evalday", groups=None):
    """every question of a group is put to ONE interpreter object, in ascending, descending,
    shuffled, look-ahead-and-back and date-alternating orders, with in-place mutations of
    referenced state between rounds; the model/spec are asked per (configuration, day)"""
    cases, impl, wants = [], [], []
    for g in (groups if groups is not None else [gen_group(rng, n_days) for _ in range(n_cfg)]):
        run_group(ctx, g, label, cases, impl, wants)
    finish_eval(ctx, label, cases, impl, sig=sig_evalseq, spec=wants)


def finish_eval(ctx, label, cases, impl, sig=sig_evalday, spec=None):
    if ctx.model_ok:
        ctx.compare_stream(label, cases, impl, core.Driver("drv_c20").ask(cases), sig=sig)
        if spec is not None:
            # the Lean-side rule (specValue) and the theorems' hypotheses against the Python-side rule
            scases = [dict(c, op="specday") for c in cases]
            sref = [{"r": "ok", "hyp": True, "res": w} for w in spec]
            ctx.compare_stream(label + "-spec", scases, sref, core.Driver("drv_c20").ask(scases),
                               sig=lambda c, m: ("spec",) + sig_evalday(c, {"res": [
                                   None if v == "out" else [v, 0] for v in m.get("res") or []]}))
    else:
        for c in cases:
            ctx.count(label)
    ctx.evaluations += sum(len(c["times"]) - 1 for c in cases)
    for c, a in list(zip(cases, impl))[:1]:
        ctx.sample({"stream": label, "cfg": c["cfg"], "d": c["d"], "first_results": a["res"][:3]})


def run_evalbad(ctx, rng, n_cfg):
    cases, impl = [], []
    for _ in range(n_cfg):
        focus = D1900 + datetime.timedelta(days=rng.randrange(400, 92000))
        cfg, kind = gen_bad_cfg(rng, focus)
        real = Real_(cfg)
        times = day_times(cfg, step=30)
        for k in range(2):
            d = list(tup(focus + datetime.timedelta(days=k)))
            if kind == 7:
                d[3] = rng.choice([0, 8, 255, d[3]])
                if rng.random() < 0.4:
                    d[1] = rng.choice([0, 13])
            c = {"op": "evalday", "cfg": cfg, "d": d, "times": [list(t) for t in times], "kind": kind}
            cases.append(c)
            impl.append({"r": "ok", "res": [real.eval(d, t) for t in times]})
        real.close()
    finish_eval(ctx, "evalbad", cases, impl,
                sig=lambda c, m: (c["kind"], tuple(sorted(set(origin(v) for v in m.get("res") or [])))))


# ---------------------------------------------------------------- timer-driven runs

def us_of(t):
    return int(round(t * 1e6)) + OFFSET_US


def run_real(case):
    """drive the real object: returns the step list [kind, t_us, pv, deadline_us|None, err|None]"""
    cfg = case["cfg"]
    start = (case["start"] - OFFSET_US) / 1e6
    until = (case["until"] - OFFSET_US) / 1e6
    real = Real_(cfg, start)
    vt, so = real.vt, real.so
    steps = []
    fault = so.reliability != 'noFaultDetected'

    def deadline():
        ds = [w for (w, t) in vt.pending() if t is so._task]
        return us_of(ds[0]) if ds else None

    def err():
        if not vt.errors:
            return None
        k = vt.errors[-1][0]
        del vt.errors[:]
        return {"RuntimeError": "runtime", "IndexError": "index", "AttributeError": "attr",
                "IllegalMonthError": "month"}.get(k, "python:" + k)

    def rec(kind):
        steps.append([kind, us_of(vt.now), tok(so.presentValue), deadline(), err()])

    ok = vt.run(until=start)
    rec("init")
    changes = list(case["changes"])
    hows = list(case.get("hows") or [])
    cur = cfg
    for _ in range(case["fuel"]):
        if not ok:
            steps.append(["overrun", us_of(vt.now), None, None, None])
            break
        ds = [w for (w, t) in vt.pending() if t is so._task]
        fire_at = ds[0] if ds and ds[0] <= until else None
        if changes:
            tc = (changes[0][0] - OFFSET_US) / 1e6
            if fire_at is not None and fire_at <= tc:
                ok = vt.run(until=fire_at)
                rec("fire")
            elif fire_at is not None or tc <= until:
                ok = vt.run(until=tc)
                new = changes.pop(0)[1]
                how = hows.pop(0) if hows else None
                e = None
                try:
                    real.write_one(cur, new, how)
                except Exception as ex:
                    e = exc_kind(ex)
                cur = new
                rec("chg")
                if e is not None:
                    steps[-1][4] = e
            else:
                break
        elif fire_at is not None:
            ok = vt.run(until=fire_at, max_loops=20000)
            rec("fire")
        else:
            break
    real.close()
    return {"r": "ok", "steps": steps}, fault


def probe_instants(cfgs, t0, t1):
    """instants (µs since 1900) in [t0, t1) at which the value is checked: the
    ends, every 5 minutes, and every entry time -1/0/+1 hundredth on every day"""
    out = {t0, t1 - 10000}
    five = 300 * 1000000
    x = (t0 // five + 1) * five
    while x < t1:
        out.add(x); x += five
    day_us = 86400 * 1000000
    offs = set()
    for cfg in cfgs:
        lists = list(cfg["weekly"] or []) + [se["tv"] for se in (cfg["exc"] or [])]
        for l in lists:
            for t, _v in l:
                cs = ((t[0] * 60 + t[1]) * 60 + t[2]) * 100 + t[3]
                offs.update((cs - 1, cs, cs + 1))
    d = t0 // day_us
    while d * day_us < t1:
        for c in offs:
            x = d * day_us + c * 10000
            if t0 <= x < t1:
                out.add(x)
        d += 1
    return sorted(x for x in out if t0 <= x < t1)


def split_us(x):
    day, r = divmod(x, 86400 * 1000000)
    d = D1900 + datetime.timedelta(days=day)
    cs = r // 10000
    return d, (cs // 360000, cs // 6000 % 60, cs // 100 % 60, cs % 100)


def oracle_run(ctx, case, steps, fault):
    where = {"stream": "run", "case": case}
    if fault:
        ctx.fail("valid-config-flagged", where, "a valid configuration is flagged faulty: the interpreter never runs")
        return
    cfg = case["cfg"]
    changes = list(case["changes"])
    # failure-and-repair histories: what happens before the repairing write is the model's
    # business (correspondence); from the repair on the schedule must be right at every instant
    repair_at = case.get("repair_at")
    repaired = repair_at is None
    for i, st in enumerate(steps):
        kind, t, pv, dl, err = st
        if kind == "overrun":
            ctx.fail("spins", where, "the interpreter re-arms itself at the current instant forever "
                     "(virtual clock stuck at %s)" % (split_us(t),), step=i)
            return
        if kind == "chg":
            tc, cfg = changes.pop(0)
            if tc == repair_at:
                repaired = True
        if not repaired:
            continue
        if err is not None:
            ctx.fail("task-raised", where, "process_task raised %s at %s; the schedule is not re-armed" % (
                err, split_us(t)), step=i, err=err)
            return
        if dl is None:
            ctx.fail("not-rearmed", where, "no deadline installed after the step at %s" % (split_us(t),), step=i)
            return
        midnight = (t // 86400000000 + 1) * 86400000000
        if not (t < dl <= midnight):
            ctx.fail("deadline-range", where, "at %s deadline %s is not in (now, next midnight]" % (
                split_us(t), split_us(dl)), step=i)
            return
        # between this step and the next (firing, write or end of run) the value must be right
        t_next = steps[i + 1][1] if i + 1 < len(steps) else min(dl, case["until"])
        prev_pv = steps[i - 1][2] if i else PV0
        for x in probe_instants([cfg], t, max(t_next, t + 1)):
            d, tm = split_us(x)
            want = ref_value(cfg, d, tm)
            if want is None:
                break
            if want == "out":
                if x == t and pv != prev_pv:
                    ctx.fail("changed-outside-period", where, "presentValue changed from %r to %r at %s, outside "
                             "the effective period" % (prev_pv, pv, (d.isoformat(), tm)), step=i)
                    return
                continue
            if pv != want:
                ctx.fail("stale", where, "at %s %r presentValue is %r, BACnet prescribes %r (last evaluation at %s)" % (
                    d.isoformat(), tm, pv, want, split_us(t)), step=i)
                return
    if not repaired:
        ctx.fail("repair-not-applied", where, "the repairing write at %s never happened" % (split_us(repair_at),))
    if steps and steps[-1][3] is not None and steps[-1][3] <= case["until"] and len(steps) < case["fuel"]:
        ctx.fail("stopped", where, "run ended with a due deadline still pending", step=len(steps) - 1)


def gen_run(rng, quick):
    day0 = rng.randrange(25567 + 365, 92000)
    focus = D1900 + datetime.timedelta(days=day0)
    ndays = rng.choice([2, 3, 3, 4, 6, 9])
    cfg = gen_cfg(rng, focus + datetime.timedelta(days=rng.randrange(0, ndays)), span=ndays)
    # make the effective period interesting relative to the run
    r = rng.random()
    def dd(k):
        x = focus + datetime.timedelta(days=k)
        return [x.year - 1900, x.month, x.day, 255]
    if r < 0.2:
        cfg["eff"] = [dd(rng.randrange(1, ndays)), list(OPEN)]                      # entry
    elif r < 0.4:
        cfg["eff"] = [list(OPEN), dd(rng.randrange(0, ndays - 1))]                  # exit
    elif r < 0.6:
        a = rng.randrange(0, ndays)
        cfg["eff"] = [dd(a), dd(rng.randrange(a, ndays + 1))]                       # entry and exit
    elif r < 0.65:
        cfg["eff"] = [dd(ndays + 3), dd(ndays + 5)]                                 # never during the run
    start_s = rng.choice([0, rng.randrange(86400), rng.randrange(86400), 86399])
    start = (day0 * 86400 + start_s) * 1000000 + rng.choice([0, 0, 500000, 290000])
    until = (day0 + ndays) * 86400 * 1000000 + rng.randrange(0, 86400) * 1000000
    changes, hows = gen_changes(rng, cfg, focus, ndays, start, until, dd, n=rng.choice([1, 2, 2, 3])) \
        if rng.random() < 0.5 else ([], [])
    return {"op": "run", "cfg": cfg, "start": start, "until": until, "pv0": PV0,
            "fuel": 400, "changes": changes, "hows": hows}


def gen_changes(rng, cfg, focus, ndays, start, until, dd, n=None):
    """writes at random instants, in time order, each replacing ONE property of the configuration
    before it — the whole property, ONE array element by index, or a resize through index 0.
    returns (changes [[t, cfg after]], hows [None | how])"""
    times = sorted(set(rng.randrange(start // 1000000 + 1, until // 1000000) * 1000000 + 500000
                       for _ in range(n or rng.randrange(1, 3))))
    changes, hows = [], []
    cur = cfg
    for tc in times:
        new = json.loads(json.dumps(cur))
        how = None
        path = rng.choice(["direct", "service"])
        other = gen_cfg(rng, focus + datetime.timedelta(days=rng.randrange(0, ndays)), span=ndays)
        r2 = rng.random()
        if r2 < 0.35 and other["weekly"] is not None:
            if cur["weekly"] and len(cur["weekly"]) == 7 and rng.random() < 0.7:
                today = tc // (86400 * 1000000) % 7 + 1
                i = rng.choice([today, today, today % 7 + 1, rng.randrange(1, 8)])
                new["weekly"][i - 1] = gen_tvs(rng, rng.randrange(1, 5), 100 + 10 * (i - 1) + 5)
                how = {"k": "wk", "i": i, "path": path}
            else:
                new["weekly"] = other["weekly"]
        elif r2 < 0.65:
            oexc = other["exc"] or []
            if cur["exc"] and rng.random() < 0.7:
                if rng.random() < 0.7:
                    i = rng.randrange(1, len(cur["exc"]) + 1)
                    new["exc"][i - 1] = rng.choice(oexc) if oexc and rng.random() < 0.5 else {
                        "p": {"k": "entry", "e": {"k": "date", "p": list(OPEN)}},
                        "tv": gen_tvs(rng, rng.randrange(1, 4), 1000 + 10 * (i - 1) + 5), "prio": rng.choice([1, 5, 7, 16])}
                    how = {"k": "exc", "i": i, "path": path}
                else:
                    nlen = rng.randrange(0, len(cur["exc"]))
                    new["exc"] = cur["exc"][:nlen]
                    how = {"k": "exc0", "n": nlen, "path": path}
            else:
                new["exc"] = oexc
        elif r2 < 0.8:
            new["def"] = rng.choice([d for d in (0, 1, 2, 3) if d != cur["def"]])
            how = {"k": "whole", "path": path}
        else:
            new["eff"] = rng.choice([other["eff"], [list(OPEN), list(OPEN)], [dd(rng.randrange(0, ndays)), list(OPEN)],
                                     [list(OPEN), dd(rng.randrange(0, ndays))]])
            how = {"k": "whole", "path": path}
        prop = next((k for k in ("exc", "def", "eff", "weekly") if new[k] != cur[k]), "weekly")
        if rng.random() < 0.35 and (
                (prop == "exc" and cur["exc"] is not None and new["exc"] is not None) or
                (prop == "weekly" and cur["weekly"] and new["weekly"] and len(cur["weekly"]) == 7 == len(new["weekly"]))):
            # the same change made by editing the stored objects and writing the same object back
            how = {"k": "inplace", "deep": rng.random() < 0.5, "via": rng.choice(["assign", "direct"])}
        changes.append([tc, new]); hows.append(how)
        cur = new
    return changes, hows


def fix_chain(case):
    """each change replaces ONE property of the configuration before it"""
    cur = case["cfg"]
    for c, how in zip(case["changes"], case.get("hows") or [None] * len(case["changes"])):
        new = c[1]
        if how is not None and how["k"] == "addcal":
            cur = new
            continue
        keys = ["exc", "def", "eff", "weekly"]             # the order run_real looks for the difference
        first = next((k for k in keys if new[k] != cur[k]), "weekly")
        for k in keys:
            if k != first:
                new[k] = cur[k]
        cur = new
    return case


def sig_run(case, m):
    steps = m.get("steps") or []
    eff = case["cfg"]["eff"]
    shape = ("open" if eff[0][:3] == [255] * 3 else "s", "open" if eff[1][:3] == [255] * 3 else "e")
    kinds = tuple(sorted(set(s[0] for s in steps)))
    org = tuple(sorted(set("pv0" if s[2] == PV0 else origin([s[2]]) for s in steps)))
    return (shape, kinds, org, min(len(steps) // 8, 5))


def gen_repair_run(rng):
    """failure-and-repair history: a configuration on which the evaluation RAISES (dangling
    calendar reference, priority 17, a calendar entry / period with no choice set — all accepted
    by the write path and by _check_reliability), either from the start or written on the way,
    then a repairing write (whole exceptionSchedule, the ONE bad element by index, or adding the
    missing calendar object and writing exceptionSchedule again)"""
    case = gen_run(rng, True)
    case["changes"], case["hows"] = [], []
    cfg = case["cfg"]
    if rng.random() < 0.7:
        cfg["eff"] = [list(OPEN), list(OPEN)]       # outside the period nothing is looked at, nothing raises
    start, until = case["start"], min(case["until"], case["start"] + 3 * 86400 * 1000000)
    case["until"] = until
    kind = rng.choice(["dangling", "dangling", "prio17", "empty", "missing"])
    bad_se = {"tv": gen_tvs(rng, rng.randrange(1, 4), 1900), "prio": rng.choice([1, 5, 16]),
              "p": {"dangling": {"k": "ref", "l": None},
                    "prio17": {"k": "entry", "e": {"k": "date", "p": list(OPEN)}},
                    "empty": {"k": "entry", "e": {"k": "empty"}},
                    "missing": {"k": "missing"}}[kind]}
    if kind == "prio17":
        bad_se["prio"] = 17
    good = list(cfg["exc"] or [])[:3]
    pos = rng.randrange(0, len(good) + 1)
    bad = json.loads(json.dumps(cfg))
    bad["exc"] = good[:pos] + [bad_se] + good[pos:]
    cfg["exc"] = good
    span = (until - start) // 1000000
    t1 = start + rng.randrange(1, max(2, span // 3)) * 1000000 + 500000
    t2 = t1 + rng.randrange(1, max(2, span // 3)) * 1000000
    # the repair
    fixed = json.loads(json.dumps(bad))
    r = rng.random()
    if kind == "dangling" and r < 0.5:
        entries = rng.choice([[{"k": "date", "p": list(OPEN)}], [], [gen_entry(rng, D1900 + datetime.timedelta(days=start // (86400 * 1000000)))]])
        fixed["exc"][pos]["p"] = {"k": "ref", "l": entries}
        how = {"k": "addcal", "l": entries}
    elif r < 0.75:
        fixed["exc"][pos] = {"p": {"k": "entry", "e": {"k": "date", "p": list(OPEN)}},
                             "tv": bad_se["tv"], "prio": rng.choice([1, 5, 16])}
        how = {"k": "exc", "i": pos + 1, "path": rng.choice(["direct", "service"])}
    else:
        fixed["exc"] = good if rng.random() < 0.5 else good + [{"p": {"k": "entry", "e": {"k": "date", "p": list(OPEN)}},
                                                                "tv": bad_se["tv"], "prio": 2}]
        how = None
    if rng.random() < 0.5:
        # bad from the start (the deferred first evaluation fails), repaired at t1
        case["cfg"] = bad
        case["changes"], case["hows"] = [[t1, fixed]], [how]
        case["repair_at"] = t1
    else:
        # valid, a write that makes the evaluation raise at t1, repaired at t2
        case["changes"], case["hows"] = [[t1, bad], [t2, fixed]], [None, how]
        case["repair_at"] = t2
    case["kind"] = kind
    return case


def gen_fault_run(rng):
    """configuration-FAULT-and-correction history: a running schedule is given a configuration the
    object itself reports as faulty (reliability = configurationError: an Integer among Reals in
    the weekly or the exception schedule, an Integer scheduleDefault, a wildcard in a weekly
    time), minutes or hours later a valid configuration is written; the run goes on for three
    to four more days.  Oracle only (reliability is not modelled): nothing is demanded while the
    configuration is faulty, from the correcting write on the full staleness / re-arm oracle"""
    case = gen_run(rng, True)
    cfg = case["cfg"]
    if rng.random() < 0.8:
        cfg["eff"] = [list(OPEN), list(OPEN)]
    if cfg["weekly"] is None:
        cfg["weekly"] = [gen_tvs(rng, rng.randrange(1, 5), 100 + 10 * i) for i in range(7)]
    start = case["start"]
    day_us = 86400 * 1000000
    t1 = start + rng.randrange(60, 20 * 3600) * 1000000 + 500000
    t2 = t1 + (rng.randrange(60, 900) if rng.random() < 0.6 else rng.randrange(900, 12 * 3600)) * 1000000
    case["until"] = t2 + rng.randrange(3 * 86400, 4 * 86400) * 1000000
    case["fuel"] = 600
    kind = rng.choice(["int-weekly", "int-weekly", "int-exc", "int-default", "wild-weekly"])
    if kind == "int-exc" and not cfg["exc"]:
        kind = "int-weekly"
    bad = json.loads(json.dumps(cfg))
    fixed = json.loads(json.dumps(cfg))
    how = None
    today = t2 // day_us % 7
    if kind in ("int-weekly", "wild-weekly"):
        i = rng.choice([today, rng.randrange(7)])
        lst = bad["weekly"][i] or [[[12, 0, 0, 0], 199]]
        j = rng.randrange(len(lst))
        lst = json.loads(json.dumps(lst))
        if kind == "int-weekly":
            lst[j][1] = {"int": rng.randrange(1, 9)}
        else:
            lst[j][0][rng.randrange(1, 4)] = 255
        bad["weekly"][i] = lst
        # the correction also changes what the schedule says (so that it matters at once)
        fixed["weekly"][i] = gen_tvs(rng, rng.randrange(1, 5), 100 + 10 * i + 5)
        r = rng.random()
        how = None if r < 0.35 else {"k": "wk", "i": i + 1, "path": rng.choice(["direct", "service"])} if r < 0.7 \
            else {"k": "inplace", "deep": rng.random() < 0.5, "via": rng.choice(["assign", "direct"])}
        if how is None:
            fixed["weekly"][(i + 1) % 7] = gen_tvs(rng, rng.randrange(1, 5), 100 + 10 * ((i + 1) % 7) + 5)
    elif kind == "int-exc":
        i = rng.randrange(len(bad["exc"]))
        tv = bad["exc"][i]["tv"] or [[[12, 0, 0, 0], 1990]]
        tv = json.loads(json.dumps(tv))
        tv[rng.randrange(len(tv))][1] = {"int": rng.randrange(1, 9)}
        bad["exc"][i]["tv"] = tv
        fixed["exc"][i] = {"p": {"k": "entry", "e": {"k": "date", "p": list(OPEN)}},
                           "tv": gen_tvs(rng, rng.randrange(1, 4), 1000 + 10 * i + 5), "prio": rng.choice([1, 5, 16])}
        r = rng.random()
        how = None if r < 0.4 else {"k": "exc", "i": i + 1, "path": rng.choice(["direct", "service"])} if r < 0.7 \
            else {"k": "inplace", "deep": rng.random() < 0.5, "via": rng.choice(["assign", "direct"])}
    else:
        bad["def"] = {"int": rng.randrange(1, 9)}
        fixed["def"] = rng.choice([d for d in (0, 1, 2, 3) if d != cfg["def"]])
    case["changes"], case["hows"] = [[t1, bad], [t2, fixed]], [None, how]
    case["repair_at"] = t2
    case["kind"] = kind
    return case


def gen_bad_run(rng):
    """timer run of a malformed configuration: correspondence of the error paths only"""
    day0 = rng.randrange(25567 + 365, 92000)
    focus = D1900 + datetime.timedelta(days=day0)
    cfg, kind = gen_bad_cfg(rng, focus)
    start = (day0 * 86400 + rng.randrange(86400)) * 1000000
    return {"op": "run", "cfg": cfg, "start": start, "until": start + 2 * 86400 * 1000000, "pv0": PV0,
            "fuel": 400, "changes": [], "kind": kind}


def run_runs(ctx, rng, n, label="run", cases=None, bad=False, repair=False, fault=False):
    if cases is None:
        cases = [gen_bad_run(rng) if bad else gen_repair_run(rng) if repair else gen_fault_run(rng) if fault
                 else fix_chain(gen_run(rng, ctx.quick)) for _ in range(n)]
    if cases and str(cases[0].get("kind", "")).startswith(("int-", "wild-")):
        # oracle only: the object's reliability handling is not modelled
        for c in cases:
            a, flt = run_real(c)
            oracle_run(ctx, c, a["steps"], flt)
            ctx.count(label, (c["kind"], (c["hows"][-1] or {}).get("k"), c["changes"][1][0] - c["changes"][0][0] > 900 * 1000000),
                      n=len(a["steps"]))
        ctx.sample({"stream": label, "kind": cases[0]["kind"], "start": cases[0]["start"]})
        return
    impl = []
    for c in cases:
        a, fault = run_real(c)
        if bad:
            c["cfg"]["fault"] = fault          # reliability is read from the real object, not modelled
        else:
            oracle_run(ctx, c, a["steps"], fault)
        impl.append(a)
    if ctx.model_ok:
        ctx.compare_stream(label, cases, impl, core.Driver("drv_c20").ask(cases),
                           sig=(lambda c, m: (c["kind"], c["cfg"]["fault"], tuple(sorted(set(
                               str(st[4]) for st in m.get("steps") or [])))))
                           if bad else (lambda c, m: ("repair", c.get("kind"), len(c["changes"]),
                                                      (c.get("hows") or [None])[-1] and c["hows"][-1]["k"]) + sig_run(c, m)[1:3])
                           if cases and "repair_at" in cases[0] else sig_run)
    else:
        for c in cases:
            ctx.count(label)
    ctx.evaluations += sum(len(a["steps"]) - 1 for a in impl)
    if cases:
        ctx.sample({"stream": label, "start": cases[0]["start"], "eff": cases[0]["cfg"]["eff"],
                    "steps": impl[0]["steps"][:6]})


# ---------------------------------------------------------------- many schedules, one task manager

def gen_multi(rng):
    """5..10 schedules (different configurations, irregular transition times) in ONE application,
    a few unrelated timers that are installed / cancelled on the way, writes to some schedules"""
    day0 = rng.randrange(25567 + 365, 92000)
    focus = D1900 + datetime.timedelta(days=day0)
    start = (day0 * 86400 + rng.randrange(86400)) * 1000000
    until = start + rng.randrange(14 * 3600, 34 * 3600) * 1000000
    ndays = 3

    def dd(k):
        x = focus + datetime.timedelta(days=k)
        return [x.year - 1900, x.month, x.day, 255]
    scheds = []
    for k in range(rng.randrange(5, 11)):
        cfg = gen_cfg(rng, focus + datetime.timedelta(days=rng.randrange(0, 2)), span=2)
        if cfg["weekly"] is None or rng.random() < 0.5:
            # transitions at irregular times on every day, so that a late timer shows soon
            cfg["weekly"] = [gen_tvs(rng, rng.randrange(2, 5), 100 + 10 * i) for i in range(7)]
        if rng.random() < 0.7:
            cfg["eff"] = [list(OPEN), list(OPEN)]
        changes, hows = gen_changes(rng, cfg, focus, ndays, start, until, dd, n=rng.choice([1, 1, 2, 3])) \
            if rng.random() < 0.6 else ([], [])
        c = fix_chain({"op": "pvat", "cfg": cfg, "start": start, "until": until, "pv0": PV0,
                       "fuel": 2000, "changes": changes, "hows": hows})
        scheds.append(c)
    timers = []
    for _ in range(rng.randrange(4, 13)):
        at = rng.choice([start, rng.randrange(start, until)])
        when = at + rng.choice([rng.randrange(60, 6 * 3600), rng.randrange(3600, 40 * 3600), 10 * 86400]) * 1000000
        cancel = rng.randrange(at + 1, when) if rng.random() < 0.6 else None
        timers.append({"at": at, "when": when, "cancel": cancel})
    return {"start": start, "until": until, "scheds": scheds, "timers": timers}


def multi_probes(case):
    """every transition instant of EVERY schedule (all versions of its configuration) on every
    day of the run, the same a second later, every write (+1 s), and a 30-minute grid"""
    start, until = case["start"], case["until"]
    day_us = 86400 * 1000000
    out = set()
    offs = {0}
    for sc in case["scheds"]:
        for cfg in [sc["cfg"]] + [c[1] for c in sc["changes"]]:
            for l in list(cfg["weekly"] or []) + [se["tv"] for se in (cfg["exc"] or [])]:
                for t, _v in l:
                    offs.add((((t[0] * 60 + t[1]) * 60 + t[2]) * 100 + t[3]) * 10000)
        for tc, _c in sc["changes"]:
            out.update((tc, tc + 1000000))
    d = start // day_us
    while d * day_us <= until:
        for o in offs:
            out.update((d * day_us + o, d * day_us + o + 1000000))
        d += 1
    x = (start // (1800 * 1000000) + 1) * 1800 * 1000000
    while x <= until:
        out.add(x); x += 1800 * 1000000
    return sorted(p for p in out if start < p <= until)


def run_multi_real(case, probes=None):
    """returns (pv[k][j] of schedule k at probe j, overdue = first (probe, k, deadline) at which a
    schedule's timer was still pending although its time had come, faults)"""
    from bacpypes.task import OneShotTask
    e = env()
    vt = e["vt"]
    start = (case["start"] - OFFSET_US) / 1e6
    vt.reset(start)
    reals = [Real_(sc["cfg"], start, inst=k + 1, reset=False) for k, sc in enumerate(case["scheds"])]
    faults = [k for k, r in enumerate(reals) if r.so.reliability != 'noFaultDetected']
    probes = probes if probes is not None else multi_probes(case)

    class Other(OneShotTask):
        def process_task(self):
            pass
    others = [Other() for _ in case["timers"]]
    events = collections_defaultdict()
    for j, p in enumerate(probes):
        events[p].append(("probe", j))
    for k, sc in enumerate(case["scheds"]):
        cur = sc["cfg"]
        for (tc, new), how in zip(sc["changes"], sc.get("hows") or [None] * len(sc["changes"])):
            events[tc].append(("write", k, cur, new, how))
            cur = new
    for i, tm in enumerate(case["timers"]):
        events[tm["at"]].append(("install", i))
        if tm["cancel"] is not None:
            events[tm["cancel"]].append(("cancel", i))
    pv = [[None] * len(probes) for _ in reals]
    overdue = None
    ok = vt.run(until=start)
    for x in sorted(events):
        if not ok:
            break
        if x > case["until"]:
            break
        acts = sorted(events[x], key=lambda a: {"install": 0, "cancel": 1, "write": 2, "probe": 3}[a[0]])
        if x > case["start"]:
            ok = vt.run(until=(x - OFFSET_US) / 1e6, max_loops=4000)
        for a in acts:
            if a[0] == "install":
                others[a[1]].install_task((case["timers"][a[1]]["when"] - OFFSET_US) / 1e6)
            elif a[0] == "cancel":
                if others[a[1]].isScheduled:
                    others[a[1]].suspend_task()
            elif a[0] == "write":
                try:
                    reals[a[1]].write_one(a[2], a[3], a[4])
                except Exception as ex:
                    vt.errors.append((type(ex).__name__, str(ex)))
            else:
                j = a[1]
                for k, r in enumerate(reals):
                    pv[k][j] = tok(r.so.presentValue)
                if overdue is None:
                    for (w, t) in vt.pending():
                        for k, r in enumerate(reals):
                            if t is r.so._task and w <= vt.now:
                                overdue = overdue or [j, k, us_of(w)]
    errors = list(vt.errors)
    for r in reals:
        r.close()
    for o in others:
        if o.isScheduled:
            o.suspend_task()
    vt.reset(0.0)
    return pv, probes, overdue, faults, errors, ok


def collections_defaultdict():
    import collections
    return collections.defaultdict(list)


def cfg_at(sc, x):
    cfg = sc["cfg"]
    for tc, new in sc["changes"]:
        if tc <= x:
            cfg = new
    return cfg


def oracle_multi(ctx, case, pv, probes, overdue, faults, errors, ok, stream="multi", split=None,
                 skip=None, kind="stale-multi", shadows=None, **fields):
    where = {"stream": stream, "case": case}
    split = split or split_us
    if faults:
        ctx.fail("valid-config-flagged", where, "schedule %d: a valid configuration is flagged faulty" % (faults[0] + 1))
        return
    if not ok:
        ctx.fail("spins", where, "the task loop did not come to rest")
        return
    if errors:
        ctx.fail("task-raised", where, "raised during the run: %r" % (errors[0],))
        return
    cache = {}

    def rule(k, sc, x, d):
        ver = sum(1 for tc, _n in sc["changes"] if tc <= x)
        key = (k, ver, d)
        if key not in cache:
            cache[key] = ref_day(sc["cfg"] if ver == 0 else sc["changes"][ver - 1][1], d)
        return cache[key]
    for j, x in enumerate(probes):
        if skip is not None and skip(x):
            continue
        d, tm = split(x)
        for k, sc in enumerate(case["scheds"]):
            if pv[k][j] is None:
                continue
            want = rule(k, sc, x, d)(tm)
            if want is None or want == "out":
                continue
            if pv[k][j] != want:
                in_shadow = any(a <= x < b for a, b in (shadows or []))
                ctx.fail(kind + ("-gap" if in_shadow else ""), where,
                         "at %s %r schedule %d of %d shows %r, its configuration prescribes %r" % (
                             d.isoformat(), tm, k + 1, len(case["scheds"]), pv[k][j], want),
                         schedule=k + 1, probe=x, **fields)
                return
    if overdue is not None:
        j, k, w = overdue
        ctx.fail("timer-overdue", where,
                 "at %s the timer of schedule %d, due at %s, is still pending: the task manager slept past it" % (
                     split(probes[j]), k + 1, split(w)), schedule=k + 1, probe=probes[j], **fields)


def run_multi(ctx, rng, n, label="multi", cases=None, model_for=30):
    cases = cases if cases is not None else [gen_multi(rng) for _ in range(n)]
    reqs, impl = [], []
    for ci, case in enumerate(cases):
        pv, probes, overdue, faults, errors, ok = run_multi_real(case)
        oracle_multi(ctx, case, pv, probes, overdue, faults, errors, ok)
        if ci >= model_for:
            # the oracle looks at every run; the model is asked about the first ones only
            # (the single-schedule behaviour is what `run` ties; requests are large)
            ctx.count(label + "-oracle-only", (min(len(case["scheds"]), 10),), n=len(case["scheds"]) * len(probes))
            continue
        for k, sc in enumerate(case["scheds"]):
            reqs.append(dict(sc, probes=probes, until=case["until"], n=len(case["scheds"])))
            impl.append({"r": "ok", "pv": pv[k]})
    if ctx.model_ok and reqs:
        ctx.compare_stream(label, reqs, impl, core.Driver("drv_c20").ask(reqs),
                           sig=lambda c, m: (min(c["n"], 10), len(c["changes"]),
                                             tuple(sorted(set(origin([v]) if v != PV0 else "pv0"
                                                              for v in m.get("pv") or [])))))
    else:
        for c in reqs:
            ctx.count(label)
    ctx.evaluations += sum(len(r["probes"]) - 1 for r in reqs)
    if cases:
        ctx.sample({"stream": label, "schedules": len(cases[0]["scheds"]), "timers": cases[0]["timers"][:3],
                    "writes": sum(len(sc["changes"]) for sc in cases[0]["scheds"]),
                    "probes": len(multi_probes(cases[0]))})


# ---------------------------------------------------------------- daylight saving time

ZONES = ["UTC", "EST5EDT,M3.2.0,M11.1.0", "CET-1CEST,M3.5.0,M10.5.0/3", "AEST-10AEDT,M10.1.0,M4.1.0/3"]
_zc = {}


def set_tz(zone):
    os.environ["TZ"] = zone
    time.tzset()


def zone_changes(year):
    """[(instant in unix seconds, change of the UTC offset in seconds)] of the current zone"""
    key = (os.environ.get("TZ"), year)
    if key not in _zc:
        t = int(time.mktime((year, 1, 1, 0, 0, 0, 0, 0, -1)))
        end = int(time.mktime((year + 1, 1, 1, 0, 0, 0, 0, 0, -1)))
        out, prev = [], time.localtime(t).tm_gmtoff
        while t < end:
            off = time.localtime(t + 3600).tm_gmtoff
            if off != prev:
                lo, hi = t, t + 3600
                while hi - lo > 1:
                    mid = (lo + hi) // 2
                    if time.localtime(mid).tm_gmtoff == prev:
                        lo = mid
                    else:
                        hi = mid
                out.append((hi, off - prev))
                prev = off
            t += 3600
        _zc[key] = out
    return _zc[key]


def split_local(x):
    """an instant (µs since 1900 UTC) as the local wall clock shows it — Python's/libc's zone
    arithmetic (time.localtime), independent of datetime_to_time"""
    sec, us = divmod(x - OFFSET_US, 1000000)
    lt = time.localtime(sec)
    return datetime.date(lt.tm_year, lt.tm_mon, lt.tm_mday), (lt.tm_hour, lt.tm_min, lt.tm_sec, us // 10000)


def gen_dst(rng, zone):
    """1..3 schedules in a zone with daylight saving, run across a change-over (either direction),
    entries and writes concentrated in the small hours"""
    year = rng.randrange(1972, 2100)
    ch = zone_changes(year)
    if ch and rng.random() < 0.85:
        c, delta = rng.choice(ch)
        start = c - rng.randrange(2 * 3600, 30 * 3600)
        until = c + rng.randrange(3 * 3600, 40 * 3600)
    else:
        c, delta = None, 0
        start = int(time.mktime((year, rng.randrange(1, 13), rng.randrange(1, 28), rng.randrange(24), 0, 0, 0, 0, -1)))
        until = start + rng.randrange(20 * 3600, 40 * 3600)
    lt = time.localtime(c if c is not None else start)
    focus = datetime.date(lt.tm_year, lt.tm_mon, lt.tm_mday)
    start_us, until_us = start * 1000000 + OFFSET_US, until * 1000000 + OFFSET_US

    def dd(k):
        x = focus + datetime.timedelta(days=k - 1)
        return [x.year - 1900, x.month, x.day, 255]

    def small_hours(nn, base):
        ts = sorted([rng.randrange(0, 5), rng.choice([0, 15, 30, 45, rng.randrange(60)]), 0, 0] if rng.random() < 0.6
                    else gen_time(rng) for _ in range(nn))
        return [[t, None if rng.random() < 0.2 else base + j] for j, t in enumerate(ts)]
    scheds = []
    for k in range(rng.randrange(1, 4)):
        cfg = gen_cfg(rng, focus, span=2)
        cfg["weekly"] = [small_hours(rng.randrange(2, 6), 100 + 10 * i) for i in range(7)]
        if rng.random() < 0.8:
            cfg["eff"] = [list(OPEN), list(OPEN)]
        for se in cfg["exc"] or []:
            if rng.random() < 0.5:
                se["tv"] = small_hours(rng.randrange(1, 4), se["tv"][0][1] if se["tv"] and se["tv"][0][1] else 1990)
        changes, hows = ([], [])
        if rng.random() < 0.6:
            changes, hows = gen_changes(rng, cfg, focus, 2, start_us, until_us, dd, n=rng.choice([1, 2, 3]))
            if c is not None and changes and rng.random() < 0.7:
                # one of the writes in the critical hours around the change
                tcs = sorted(set([ch_[0] for ch_ in changes[1:]] +
                                 [(c + rng.randrange(-3600, 2 * 3600)) * 1000000 + OFFSET_US + 500000]))
                tcs = [t for t in tcs if start_us < t < until_us]
                if len(tcs) == len(changes):
                    for ch_, t in zip(changes, tcs):
                        ch_[0] = t
        scheds.append(fix_chain({"op": "pvat", "cfg": cfg, "start": start_us, "until": until_us, "pv0": PV0,
                                 "fuel": 2000, "changes": changes, "hows": hows}))
    return {"tz": zone, "start": start_us, "until": until_us, "scheds": scheds, "timers": [],
            "change": None if c is None else [c * 1000000 + OFFSET_US, delta]}


def dst_probes(case):
    """every wall-clock transition instant of every schedule on every local date of the run
    (time.mktime of the full struct, tm_isdst=-1) and a second later, local midnights, a 15-minute
    grid for three hours either side of the change-over, every write (+1 s), a 30-minute grid"""
    start, until = case["start"], case["until"]
    out = set()
    tods = {(0, 0, 0, 0)}
    for sc in case["scheds"]:
        for cfg in [sc["cfg"]] + [c[1] for c in sc["changes"]]:
            for l in list(cfg["weekly"] or []) + [se["tv"] for se in (cfg["exc"] or [])]:
                tods.update(tuple(t) for t, _v in l)
        for tc, _c in sc["changes"]:
            out.update((tc, tc + 1000000))
    d = split_local(start)[0]
    last = split_local(until)[0]
    while d <= last:
        for (h, mi, sec, hs) in tods:
            x = int(time.mktime((d.year, d.month, d.day, h, mi, sec, 0, 0, -1))) * 1000000 + hs * 10000 + OFFSET_US
            out.update((x, x + 1000000))
        d += datetime.timedelta(days=1)
    if case["change"]:
        c = case["change"][0]
        out.update(c + k * 900 * 1000000 for k in range(-12, 13))
        out.update((c - 1000000, c + 1000000))
    x = (start // (1800 * 1000000) + 1) * 1800 * 1000000
    while x <= until:
        out.add(x); x += 1800 * 1000000
    return sorted(p for p in out if start < p <= until)


def run_dst(ctx, cases, label="dst"):
    for case in cases:
        prev = os.environ.get("TZ", "UTC")
        set_tz(case["tz"])
        try:
            probes = dst_probes(case)
            pv, probes, overdue, faults, errors, ok = run_multi_real(case, probes)
            # EVERY change-over of the zone inside the run's window (also when the run was generated
            # as an "ordinary day" run and happens to contain one), from the zone rules themselves
            kind = "stale-dst"
            y0 = time.localtime((case["start"] - OFFSET_US) // 1000000).tm_year
            y1 = time.localtime((case["until"] - OFFSET_US) // 1000000).tm_year
            inside = [(c * 1000000 + OFFSET_US, d) for y in range(y0 - 1, y1 + 2) for (c, d) in zone_changes(y)
                      if case["start"] - 2 * 3600 * 1000000 <= c * 1000000 + OFFSET_US <= case["until"] + 2 * 3600 * 1000000]
            # a backward change: the wall clock shows one hour twice.  Which reading a schedule should
            # follow there is not defined, and which of the two instants libc's mktime(tm_isdst=-1)
            # picks for a time in that hour depends on its previous calls (observed: the same schedule
            # is armed for 01:30 EDT in one process history and 01:30 EST in another).  Nothing is
            # demanded of the VALUE during both passes of the repeated hour; spinning, raising, overdue
            # timers are still looked at, and from the end of the second pass on the value must be
            # right again
            back = [(c + d * 1000000, c - d * 1000000) for (c, d) in inside if d < 0]
            skip = (lambda x: any(a <= x < b for a, b in back)) if back else None
            fwd = [(c, c + d * 1000000) for (c, d) in inside if d > 0]
            oracle_multi(ctx, case, pv, probes, overdue, faults, errors, ok, stream="dst", split=split_local,
                         skip=skip, kind=kind, tz=case["tz"], shadows=fwd,
                         change=("forward" if fwd else "") + ("back" if back else "") or None)
            zname = case["tz"].split(",")[0]
            ctx.count(label, (zname, 0 if not case["change"] else (1 if case["change"][1] > 0 else -1),
                              min(sum(len(sc["changes"]) for sc in case["scheds"]), 3)),
                      n=len(probes) * len(case["scheds"]))
        finally:
            set_tz(prev)
    if cases:
        ctx.sample({"stream": label, "tz": cases[0]["tz"], "change": cases[0]["change"],
                    "schedules": len(cases[0]["scheds"])})


def shard_dst(ctx, spec):
    """one worker process per zone: the process-wide TZ is set there, never in the main process"""
    env()
    zone, idx, n = spec
    set_tz(zone)
    try:
        rng = ctx.sub_rng("dst-%s-%d" % (zone, idx))
        run_dst(ctx, [gen_dst(rng, zone) for _ in range(n)])
    finally:
        set_tz("UTC")


# ---------------------------------------------------------------- corpus, shards, entry points

def run_corpus(ctx):
    d = os.path.join(core.VERIF, "corpus", "C20")
    if not os.path.isdir(d):
        return
    for name in sorted(os.listdir(d)):
        if name.endswith(".json"):
            replay_case(ctx, json.load(open(os.path.join(d, name))), "corpus")


def replay_case(ctx, w, label):
    stream, case = w["stream"], w["case"]
    env()
    if stream == "year":
        days = days_of(case["y"])
        a = impl_year(case, days)
        oracle_year(ctx, case, a, days)
        if ctx.model_ok:
            ctx.compare_stream(label, [case], [a], core.Driver("drv_c20").ask([case]),
                               sig=lambda c, m: ("year",) + pat_class(c["e"]))
    elif stream in ("evalday", "evalbad"):
        cfg = case["cfg"]
        real = Real_(cfg)
        d = D1900 + datetime.timedelta(days=0)
        dt = datetime.date(case["d"][0] + 1900, case["d"][1], case["d"][2])
        times = [list(t) for t in (case.get("times") or day_times(cfg))]
        c = {"op": "evalday", "cfg": cfg, "d": case["d"], "times": times}
        res = [real.eval(c["d"], t) for t in times]
        real.close()
        if stream == "evalday":
            oracle_evalday(ctx, c, res, dt)
        finish_eval(ctx, label, [c], [{"r": "ok", "res": res}],
                    sig=lambda c, m: ("evalday",) + sig_evalday(c, m))
    elif stream == "evalseq":
        run_evalday(ctx, None, 0, 0, label=label, groups=[{k: case[k] for k in ("cfg", "days", "mode", "seed", "mods")}])
    elif stream == "run":
        run_runs(ctx, None, 0, label=label, cases=[case])
    elif stream == "multi":
        run_multi(ctx, None, 0, label=label, cases=[case])
    elif stream == "dst":
        run_dst(ctx, [case], label=label)
    else:
        raise core.Infra("unknown corpus stream %r" % stream)


def shard_eval(ctx, spec):
    set_tz("UTC")
    env()
    kind, idx, n = spec
    rng = ctx.sub_rng("shard-%s-%d" % (kind, idx))
    if kind == "evalday":
        run_evalday(ctx, rng, n, 3)
    elif kind == "evalbad":
        run_evalbad(ctx, rng, n)
    elif kind == "runbad":
        run_runs(ctx, rng, n, label="runbad", bad=True)
    elif kind == "multi":
        run_multi(ctx, rng, n)
    elif kind == "repair":
        run_runs(ctx, rng, n, label="repair", repair=True)
    elif kind == "faultfix":
        run_runs(ctx, rng, n, label="faultfix", fault=True)
    else:
        run_runs(ctx, rng, n)


def run(ctx):
    env()
    run_corpus(ctx)
    rng = ctx.sub_rng("c20")
    if ctx.quick:
        run_cal(ctx, sorted(set([0, 4, 100, 200, 254, 70, 99] + [rng.randrange(255) for _ in range(8)])))
        run_now(ctx, rng)
        run_years(ctx, [(ctx.seed * 37 + 100) % 255], "year")
        run_years(ctx, list(range(255)), "year-monthlen", focus=True)
        run_evalday(ctx, rng, 50, 2)
        run_evalbad(ctx, rng, 120)
        run_runs(ctx, rng, 60)
        run_runs(ctx, rng, 40, label="runbad", bad=True)
        run_runs(ctx, ctx.sub_rng("c20-repair"), 50, label="repair", repair=True)
        run_runs(ctx, ctx.sub_rng("c20-faultfix"), 50, label="faultfix", fault=True)
        run_multi(ctx, ctx.sub_rng("c20-multi"), 160)
        core.run_shards(ctx, "harness.c20", "shard_dst", [(z, 0, 30) for z in ZONES])
    else:
        run_cal(ctx, list(range(255)))
        run_now(ctx, rng)
        years = list(range(255))
        core.run_shards(ctx, "harness.c20", "shard_years", [years[i::32] for i in range(32)])
        specs = [("evalday", i, 150) for i in range(32)] + [("evalbad", i, 400) for i in range(8)] + \
                [("run", i, 200) for i in range(32)] + [("runbad", i, 300) for i in range(8)] + \
                [("multi", i, 120) for i in range(32)] + [("repair", i, 200) for i in range(8)] + \
                [("faultfix", i, 150) for i in range(8)]
        core.run_shards(ctx, "harness.c20", "shard_dst", [(z, i, 150) for i in range(4) for z in ZONES])
        core.run_shards(ctx, "harness.c20", "shard_eval", specs)
        ctx.exhaustive = True
        ctx.extra["exhaustive_years"] = "1900..2154 x every pattern class"


def search(ctx):
    """focused failing-input search: the oracles over fresh, larger streams"""
    env()
    rng = ctx.sub_rng("c20-search")
    run_years(ctx, [rng.randrange(255) for _ in range(6)] + [0, 100, 200], "search-year")
    run_evalday(ctx, rng, 300, 3, label="search-evalday")
    run_runs(ctx, rng, 200, label="search-run")
    run_multi(ctx, rng, 150, label="search-multi")
    run_runs(ctx, rng, 100, label="search-repair", repair=True)
    core.run_shards(ctx, "harness.c20", "shard_dst", [(z, 9, 60) for z in ZONES])


def replay(ctx, payload):
    rec = payload.get("failure") or (payload.get("correspondence_disagreements") or [{}])[0]
    case = rec.get("case")
    if not case:
        raise core.Infra("nothing to replay")
    if "stream" in case and "case" in case:
        replay_case(ctx, {"stream": case["stream"], "case": case["case"]}, "replay")
    elif case.get("op") == "year":
        replay_case(ctx, {"stream": "year", "case": case}, "replay")
    elif case.get("op") == "evalday":
        replay_case(ctx, {"stream": "evalbad" if "kind" in case else "evalday", "case": case}, "replay")
    elif case.get("op") == "run":
        replay_case(ctx, {"stream": "run", "case": case}, "replay")
    else:
        raise core.Infra("cannot replay %r" % (case,))
