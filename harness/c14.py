"""
C14 — scheduled work runs once, in order, never early; failures stay isolated.

Model = lean/Drv/C14.lean over Model.Task.  The implementation side is the
REAL TaskManager singleton, the REAL _Task / OneShotTask / FunctionTask /
RecurringTask / RecurringFunctionTask classes and the REAL core.run /
core.run_once / core.deferred, under the virtual clock of harness/vt.py.  What
the harness puts around them (all of it in this file):

  * `asyncore.loop` as seen by core.run is `Impl.idle` (transcribed in the
    docstring of `World.runLoop`): a set trigger returns at once, otherwise
    virtual time passes by exactly the timeout core.run computed, until T;
  * the manager's wake-up pipe is a flag object (`Trigger`);
  * task bodies / deferred functions are scripted: record, defer, maybe raise.

Correspondence streams (after EVERY operation both sides report the events
emitted, the clock, the armed deadline and a digest of heap / flags /
taskTime / deferred queue / trigger):
  corpus   : corpus/C14/*.json
  dfs      : ALL operation sequences up to length 5 (quick) / 7 (thorough) over
             {install at T, install after D, suspend, resume, re-install,
             advance D by run_once, advance D by run} on 4 tasks, up to renaming
             of tasks (first-use order); every time collides (T = base + D).
             Quick: complete up to length 5.  Thorough: complete up to length 6;
             of length 7 the histories that end in an advance (the others have
             the firing log of their prefix, which is enumerated)
  random   : histories of length 200 over 6 tasks of mixed classes (raising
             bodies, deferring bodies, recurring with refused parameters, ...)
  grid     : recurring interval x offset x phase grid incl. 0.1, 0.3, 1/3 s,
             offsets larger than the interval, three clock magnitudes; exact
             rational model (1 tick = 1/3 us), compared after quantisation to 1 us
  deferred : every subset of raising members of batches of 1..6, flat / each
             member deferring a child / chains / submitted by a task body,
             drained by run_once and by run; every member is, in turn, a plain
             function, a lambda, a functools.partial, a bound method, a callable
             instance and a partial around a builtin (the kind of callable is
             invisible to the model); task bodies likewise (subclass, or
             FunctionTask / RecurringFunctionTask around each kind)
Implementation-side oracle (`Oracle`, independent of the model): evaluates each
clause of the property on the observed log — fired only while scheduled, due
time as requested, never early, minimum (due, installation order) among the
pending, nothing due left after a completed pass, one heap entry per task and
present iff flagged, recurring slots on the exact grid and strictly after
installation, deferred calls == submissions.
"""
import copy, functools, glob, itertools, json, operator, os, sys
from fractions import Fraction
from . import core

LEAN_TARGETS = ["BacVerif.Props.C14", "drv_c14"]
LEANCHECKER = ["BacVerif.Props.C14"]
LEVEL = "proof"
RULE = ("dfs: all histories up to length 5 (quick) / 6 (thorough; plus those of length 7 that end in an "
        "advance, the rest share the firing log of their enumerated prefix) over 5 task operations x "
        "4 tasks (canonical task naming) + 2 ways to advance time, colliding times; random: length-200 "
        "histories over 12 operation kinds; grid: recurring interval/offset/phase/clock-magnitude "
        "grid incl. 0.1, 0.3, 1/3 s; deferred: all raising subsets of batches <= 6 in 4 shapes x 2 "
        "loops x 6 kinds of callable per member. distinct = distinct (stream, operation, event-shape, flag/outcome class) signatures; "
        "trivial = an operation that emitted nothing and changed nothing")
TRUSTED = ["lean/BacVerif/Model/Task.lean is a hand transcription of task.py/core.py (fixed tree), "
           "tied by the five correspondence streams",
           "heapq (the model pops the minimum by (time, seq)); itertools.count",
           "harness stub for asyncore.loop and the trigger flag (harness/c14.py: Impl.idle)",
           "Python float arithmetic: not modelled; recurring slots compared after quantisation to 1 us "
           "(+-1 us at epoch magnitude, where a double resolves 0.24 us)"]
ASSUMPTIONS = ["times and deltas are non-negative; enable_sleeping() is not used; single thread",
               "scripted bodies do not install or suspend tasks themselves (only the recurring "
               "re-install inside TaskManager.process_task happens during a pass)"]

FUEL = 2000                     # default bound on loop iterations of one run() (random/grid streams)
DFS_FUEL = 300                  # ... in the dfs stream, where a legitimate pass needs < 40
ONCE_READS = 4000               # clock reads allowed to one run_once() / API call
MAX_FAILS = 100                 # a shard stops generating once it has this many property failures
MAX_OVERRUNS = 6                # ... or once this many operations of the tree under test did not
                                # come to rest (each costs a full loop budget)
GRID_FUEL = 300
D = 500000                      # the one delta of the dfs stream (0.5 s, exact in binary)


class Boom(Exception):
    def __init__(self, who):
        Exception.__init__(self, "boom %r" % (who,))
        self.who = who


class Overrun(Exception):
    """raised by the virtual clock when one operation reads it too often: a loop of the code
    under test does not come to rest (e.g. run_once spinning on delta == 0.0)"""


KINDS = 6      # plain function, lambda, functools.partial, bound method, callable instance,
               # partial around a builtin (operator.call) — the model does not see the kind


def as_callable(kind, work):
    """wrap the zero-argument `work` as a callable of the given kind.  bacpypes promises to call
    whatever is handed to deferred()/FunctionTask(): nothing but __call__ may be assumed
    (partials and callable instances have no __name__, bound methods take no attributes, ...)"""
    kind %= KINDS
    if kind == 0:
        def plain_function():
            work()
        return plain_function
    if kind == 1:
        return lambda: work()
    if kind == 2:
        def with_args(w, _x, key=None):
            w()
        return functools.partial(with_args, work, 1, key=2)
    if kind == 3:
        class Holder:
            def method(self):
                work()
        return Holder().method
    if kind == 4:
        class Callable:
            __slots__ = ()

            def __call__(self):
                work()
        return Callable()
    return functools.partial(operator.call, work)      # a partial around a builtin


import re
FRAMELESS_RE = re.compile(r"c14\D{0,6}?(\d+)")


class Trigger:
    """stands for the wake-up pipe of the task manager"""
    def __init__(self):
        self.flag = False

    def set(self):
        self.flag = True


def us(x):
    """seconds (float) -> integer microseconds, exact rounding of the double's value"""
    if x is None:
        return None
    v = x * 1000000.0
    r = round(v)
    if abs(v - r) < 0.2 and abs(v) < 4.0e15:      # far from a rounding boundary: the product's own
        return int(r)                             # error (< 0.13 at 10^15) cannot change the result
    return int(round(Fraction(x) * 1000000))


RAISED = [("schedule missing", "scheduleMissing"), ("task time is None", "taskTimeNone"),
          ("interval unset", "intervalUnset"), ("interval must be greater", "intervalNotPositive")]


def raised_kind(e, pre=False):
    if isinstance(e, RuntimeError):
        for frag, k in RAISED + [("no task manager", "noTaskManager")]:
            if frag in str(e):
                return k
    if pre and isinstance(e, ValueError):         # _unscheduled_tasks.remove(task): not listed
        return "notInList"
    if pre and isinstance(e, AttributeError):     # None.resume_task
        return "noManagerAttr"
    return "python:" + type(e).__name__


# --------------------------------------------------------------------------
# implementation adapter

class Impl:
    _inst = None
    overruns = 0          # operations of this process in which a loop did not come to rest

    @classmethod
    def get(cls):
        if cls._inst is None:
            cls._inst = cls()
        return cls._inst

    def __init__(self):
        from .vt import VT
        self.vt = VT.install(start=0.0)
        self.bcore = self.vt.bcore
        self.btask = self.vt.btask
        self.tm = self.vt.tm
        self.vt._idle = self.idle                 # our stub instead of vt's
        self.btask._time = self.clock             # vt's clock, with a call budget per operation
        self.reads = 0
        self.max_reads = ONCE_READS
        self.max_loops = FUEL
        self.seq0 = 0
        self.trigger = Trigger()
        self.tm.trigger = self.trigger
        # the library's OWN error reporter stays in place (vt.py replaced it): what
        # bacpypes_debugging attaches to run / run_once is attached again, and the rig listens on
        # their loggers — a reporter that fails inside the loop's except handler is part of the
        # behaviour under test
        import logging
        import bacpypes.debugging as bdebug
        impl = self

        class Listener(logging.Handler):
            def emit(self, record):
                impl.logged()
        for fn in (self.bcore.run, self.bcore.run_once):
            bdebug.bacpypes_debugging(fn)
            fn._logger.addHandler(Listener())
            fn._logger.propagate = False
        self.tasks = []
        self.tpu = 1
        self.out = []
        self.calls = []
        self.subs = []
        self.T = 0.0
        self.loops = 0
        self.overrun = False
        self.snaps = {}
        self.fn_ids, self.fn_keep = {}, []
        self.pre = False

    # ---- scripted environment -------------------------------------------
    def make_task(self, idx, spec):
        h = self
        bt = self.btask

        def body(task):
            h.out.append(["fire", idx, us(h.vt.now), us(task.taskTime)])
            h.do_acts(spec.get("a", ()))
            for f in spec["defers"]:
                h.defer(f)
            if spec["raises"]:
                raise Boom(("t", idx))

        kind = spec.get("kind", idx % 2)
        holder = []
        if kind == 0:
            base = bt.RecurringTask if spec["rec"] else bt.OneShotTask

            class HTask(base):
                def process_task(self):
                    body(self)
            t = HTask()
        else:
            # the function-task factories with every kind of callable
            fn = as_callable(kind - 1, lambda: body(holder[0]))
            t = bt.RecurringFunctionTask(None, fn) if spec["rec"] else bt.FunctionTask(fn)
        holder.append(t)
        t._c14_idx = idx
        return t

    def defer(self, spec):
        h = self
        fl = spec.get("fl")
        if fl is not None and spec["r"] and not spec["k"] and not spec.get("a"):
            # a raising member WITHOUT a Python frame of its own
            fid = spec["id"]
            key = ("c14", fid)
            args = ()
            if fl % 5 == 0:
                fn, args = {}.pop, (key,)                          # builtin bound method: KeyError
            elif fl % 5 == 1:
                fn, args = [].index, (key,)                        # builtin bound method: ValueError
            elif fl % 5 == 2:
                fn = functools.partial(int, "c14-%d" % fid)        # C callable: ValueError
            elif fl % 5 == 3:
                fn = functools.partial(operator.getitem, {}, key)  # C callable: KeyError
            else:
                ns = {}
                exec("def c14_fn_%d():\n    pass\n" % fid, ns)    # zero-argument function ...
                fn, args = ns["c14_fn_%d" % fid], (1, 2, 3)        # ... called with three: TypeError
            self.fn_ids[id(fn)] = fid
            self.fn_keep.append(fn)
            self.subs.append(fid)
            self.bcore.deferred(fn, *args)
            return

        def work():
            h.out.append(["call", spec["id"]])
            h.calls.append(spec["id"])
            h.do_acts(spec.get("a", ()))
            for k in spec["k"]:
                h.defer(k)
            if spec["r"]:
                raise Boom(("f", spec["id"]))
        fn = as_callable(spec.get("kind", 0), work)
        self.fn_ids[id(fn)] = spec["id"]
        self.fn_keep.append(fn)
        self.subs.append(spec["id"])
        self.bcore.deferred(fn)

    def q(self, ticks):
        """ticks -> us, rounded as the driver does"""
        return (2 * ticks + self.tpu) // (2 * self.tpu)

    def do_acts(self, acts):
        """re-entrant use of the scheduler from inside a task body / deferred function"""
        for a in acts:
            now = us(self.vt.now)
            if a[0] == "at":
                t = self.tasks[a[1]]
                t.install_task(when=self.sec(a[2]))
                self.out.append(["act", "at", a[1], self.q(a[2]), now, us(t.taskTime)])
            elif a[0] == "after":
                t = self.tasks[a[1]]
                t.install_task(delta=self.sec(a[2]))
                self.out.append(["act", "after", a[1], self.q(a[2]), now, us(t.taskTime)])
            elif a[0] == "suspend":
                self.tasks[a[1]].suspend_task()
                self.out.append(["act", "suspend", a[1], now])
            elif a[0] == "stop":
                self.bcore.stop()
                self.out.append(["act", "stop", now])
            elif a[0] == "pump":
                # the callback pumps the loop itself (a blocking helper waiting for something)
                self.out.append(["act", "pump", now])
                self.pump_depth += 1
                try:
                    if self.pump_depth > 6:       # the generators nest at most 3 deep
                        raise Overrun("run_once() nested %d deep" % self.pump_depth)
                    self.bcore.run_once()
                finally:
                    self.pump_depth -= 1
            else:
                raise core.Infra("bad act %r" % (a,))

    def logged(self, *_a):
        """what core.run / core.run_once report from their `except Exception` (called by the
        listener on their loggers, inside the except block)"""
        _et, ev, tb = sys.exc_info()
        if isinstance(ev, Overrun):
            self.out.append(["overrun"])
            self.overrun = True
            self.bcore.stop()
            return
        who = getattr(ev, "who", None)
        if who and who[0] == "f":
            self.out.append(["ferr", who[1]])
            return
        if who and who[0] == "t":
            self.out.append(["terr", who[1]])
            return
        m = FRAMELESS_RE.search("%s %r" % (ev, getattr(ev, "args", ())))
        if m and not isinstance(ev, Boom):
            # a member without a Python frame of its own (builtin method, C callable, bad call
            # signature): it cannot record its own call, the error report is the record
            fid = int(m.group(1))
            self.out.append(["call", fid])
            self.calls.append(fid)
            self.out.append(["ferr", fid])
            return
        idx = None
        while tb is not None:
            me = tb.tb_frame.f_locals.get("self")
            if getattr(me, "_c14_idx", None) is not None:
                idx = me._c14_idx
            tb = tb.tb_next
        self.out.append(["terr", idx] if idx is not None else ["err", type(ev).__name__])

    def clock(self):
        self.reads += 1
        if self.reads > self.max_reads:
            raise Overrun("clock read %d times in one operation" % self.reads)
        return self.vt.now

    def idle(self, timeout):
        """what core.run sees as asyncore.loop(timeout=delta, count=1)"""
        self.loops += 1
        if self.loops > self.max_loops:
            self.overrun = True
            self.bcore.stop()
            return
        if self.trigger.flag:
            self.trigger.flag = False
            return
        vt = self.vt
        target = vt.now + timeout
        if self.tm.tasks:
            head = self.tm.tasks[0][0]
            if abs(target - head) < 0.4e-6:       # float noise of now + (when - now)
                target = head
        if target > self.T:
            vt.now = max(vt.now, self.T)
            self.stub_stopped = True
            self.bcore.stop()
            return
        vt.now = target

    # ---- state --------------------------------------------------------------
    def sec(self, ticks):
        return float(Fraction(ticks, self.tpu * 1000000))

    def adopt(self, tm):
        """a TaskManager created by the code under test (TaskManager() in a history that began
        without one, or the first core.run_once()) becomes the manager of the rig: its real
        trigger pipe is replaced by the flag object, which inherits whether the pipe was set"""
        flag = False
        tr = getattr(tm, "trigger", None)
        if tr is not None and not isinstance(tr, Trigger):
            try:
                flag = bool(tr.isSet())
            finally:
                tr.close()
        self.trigger = Trigger()
        self.trigger.flag = flag
        tm.trigger = self.trigger
        self.tm = self.vt.tm = tm
        self.bcore.taskManager = tm
        self.pre = False

    def forget_manager(self):
        """the process has no task manager (yet): what a fresh interpreter looks like"""
        bt = self.btask
        bt._task_manager = None
        for cls in type(self.tm).__mro__:
            if "_singleton_instance" in cls.__dict__:
                cls._singleton_instance = None
        del bt._unscheduled_tasks[:]
        self.bcore.taskManager = None
        self.tm = None
        self.pre = True
        self.seq0 = 0

    def reset(self, req):
        if self.tm is None:                       # the previous history never created a manager
            self.adopt(self.btask.TaskManager())
        self.vt.reset(start=0.0)
        # installation numbers are reported relative to the counter's value at reset
        self.seq0 = next(copy.copy(self.tm.counter))
        self.trigger.flag = False
        self.bcore.running = False
        self.tpu = req.get("tpu", 1)
        self.tasks = [self.make_task(i, s) for i, s in enumerate(req["tasks"])]
        self.out, self.calls, self.subs = [], [], []
        self.fn_ids, self.fn_keep = {}, []
        self.snaps = {}
        if req.get("premgr"):
            self.forget_manager()

    def save(self, k):
        self.snaps[k] = (self.vt.now, list(self.tm.tasks), copy.copy(self.tm.counter),
                         [(t.taskTime, t.isScheduled, getattr(t, "taskInterval", None),
                           getattr(t, "taskIntervalOffset", None)) for t in self.tasks],
                         list(self.bcore.deferredFns), self.trigger.flag,
                         list(self.calls), list(self.subs), self.bcore.running)

    def restore(self, k):
        now, heap, cnt, attrs, dq, flag, calls, subs, running = self.snaps[k]
        self.bcore.running = running
        self.vt.now = now
        self.tm.tasks[:] = heap
        self.tm.counter = copy.copy(cnt)
        for t, (tt, sch, iv, off) in zip(self.tasks, attrs):
            t.taskTime, t.isScheduled = tt, sch
            if hasattr(t, "taskInterval"):
                t.taskInterval, t.taskIntervalOffset = iv, off
        self.bcore.deferredFns = list(dq)
        self.trigger.flag = flag
        self.calls, self.subs = list(calls), list(subs)

    def digest(self):
        heap = sorted(self.tm.tasks, key=lambda e: (e[0], e[1])) if self.tm is not None else []
        return {"unsched": [t._c14_idx for t in self.btask._unscheduled_tasks] if self.pre else None,
                "heap": [[us(w), n - self.seq0, t._c14_idx] for (w, n, t) in heap],
                "flags": [bool(t.isScheduled) for t in self.tasks],
                "ttime": [us(t.taskTime) for t in self.tasks],
                "trig": bool(self.trigger.flag),
                "running": bool(self.bcore.running),
                "queue": [self.fn_ids.get(id(f[0]), -1) for f in self.bcore.deferredFns]}

    # ---- operations ---------------------------------------------------------
    def run_until(self, T, fuel):
        self.T = T
        self.max_loops = fuel
        self.max_reads = 20 * fuel + ONCE_READS
        self.loops = 0
        self.overrun = False
        self.stub_stopped = False
        self.bcore.run(spin=1.0e9, sigterm=None, sigusr1=None)
        # 0 = did not come to rest, 1 = reached T, 2 = stopped from inside (stop() in a body)
        return 0 if self.overrun else 1 if self.stub_stopped else 2

    def do(self, req):
        op = req["op"]
        if op == "reset":
            self.reset(req)
            return {"r": "ok"}
        if "from" in req:
            self.restore(req["from"])
        self.out = []
        self.reads = 0
        self.pump_depth = 0
        self.max_reads = ONCE_READS
        aux = None
        vt = self.vt
        try:
            if op == "at":
                self.tasks[req["t"]].install_task(when=self.sec(req["when"]))
            elif op == "after":
                self.tasks[req["t"]].install_task(delta=self.sec(req["d"]))
            elif op == "bare":
                self.tasks[req["t"]].install_task()
            elif op == "rec":
                iv, off = req["iv"], req["off"]
                self.tasks[req["t"]].install_task(
                    interval=None if iv is None else float(Fraction(iv, self.tpu * 1000)),
                    offset=None if off is None else float(Fraction(off, self.tpu * 1000)))
            elif op == "suspend":
                self.tasks[req["t"]].suspend_task()
            elif op == "resume":
                self.tasks[req["t"]].resume_task()
            elif op == "defer":
                self.defer(req["f"])
            elif op == "tick":
                vt.now = vt.now + self.sec(req["d"])
            elif op == "next":
                task, delta = self.tm.get_next_task()
                aux = us(delta)
                if task is not None:
                    try:
                        self.tm.process_task(task)
                    except Exception:
                        self.out.append(["terr", task._c14_idx])
            elif op == "mk":
                tm = self.btask.TaskManager()
                if self.pre:
                    self.adopt(tm)
                elif tm is not self.tm:
                    self.out.append(["second-manager"])
            elif op == "once":
                vt.now = vt.now + self.sec(req["d"])
                self.overrun = False
                try:
                    self.bcore.run_once()
                finally:
                    if self.pre and self.btask._task_manager is not None:
                        self.adopt(self.btask._task_manager)     # created by run_once itself
                aux = 0 if self.overrun else 1
            elif op == "run":
                aux = self.run_until(vt.now + self.sec(req["d"]), req["fuel"])
            elif op == "jump":
                T = max(self.tm.tasks[0][0], vt.now) if self.tm.tasks else vt.now
                aux = self.run_until(T, req["fuel"])
            else:
                raise core.Infra("bad op %r" % (op,))
        except core.Infra:
            raise
        except Overrun:
            self.bcore.running = False
            self.out.append(["overrun"])
            aux = 0
        except Exception as e:
            self.out.append(["raised", raised_kind(e, self.pre)])
        if aux == 0 and op in ("once", "run", "jump"):
            Impl.overruns += 1
        tm = self.tm
        rep = {"r": "ok", "out": self.out, "now": us(vt.now),
               "deadline": us(tm.tasks[0][0]) if tm is not None and tm.tasks else None,
               "aux": aux, "digest": self.digest()}
        if "to" in req:
            self.save(req["to"])
        return rep


# --------------------------------------------------------------------------
# oracle: the property evaluated on the implementation's own log

class Oracle:
    def __init__(self, scn):
        self.tpu = scn.get("tpu", 1)
        self.tol = scn.get("tol", 0)
        self.tasks = scn["tasks"]
        n = len(self.tasks)
        self.pending = {}                 # tid -> [due_us, installation number, exact?]
        self.tt = [None] * n              # last requested taskTime
        self.iv = [None] * n              # recurring parameters, in ticks (exact)
        self.off = [None] * n
        self.inst = 0
        self.now = 0                      # us, from the replies
        self.snaps = {}
        # a callback that pumps the loop legitimately changes the ORDER of calls (the nested pass
        # runs what was deferred since the batch was detached, before the rest of the batch):
        # exactly-once is then checked on multisets, the order by the lockstep with the model
        self.pumps = '"pump"' in json.dumps(scn)
        # a history that begins before any task manager exists: what is installed then is armed
        # when the manager appears — each task at its LAST time, in the order of the LAST installs
        self.pre = bool(scn.get("premgr"))
        self.pre_armed = {}               # tid -> order of its last install while there was no manager

    def save(self, k):
        self.snaps[k] = ({t: list(v) for t, v in self.pending.items()}, list(self.tt),
                         list(self.iv), list(self.off), self.inst, self.now)

    def restore(self, k):
        p, tt, iv, off, inst, now = self.snaps[k]
        self.pending = {t: list(v) for t, v in p.items()}
        self.tt, self.iv, self.off, self.inst, self.now = list(tt), list(iv), list(off), inst, now

    def arm(self, tid, due):
        self.pending[tid] = [due, self.inst, True]
        self.inst += 1
        self.tt[tid] = due

    def grid_next(self, tid, now_us):
        """first grid point strictly after now + 1 us, exact, in us (Fraction)"""
        iv = Fraction(self.iv[tid], self.tpu)
        off = Fraction(self.off[tid] or 0, self.tpu)
        n = Fraction(now_us + 1) - off
        k = n // iv + 1
        return off + k * iv

    def near(self, a, b, slack=0):
        if type(a) is int and type(b) is int:
            return abs(a - b) <= self.tol + slack
        return abs(Fraction(a) - Fraction(b)) <= Fraction(1, 2) + self.tol + slack

    def step(self, req, rep, impl, fail):
        """fail(kind, what, **fields)"""
        op = req["op"]
        if "from" in req:
            self.restore(req["from"])
        now0 = self.now
        self.now = rep["now"]
        if self.now < now0:
            fail("clock", "clock went backwards")
        t = req.get("t")
        dg = rep["digest"]
        if self.pre and op in ("mk", "once"):
            # the manager appears (TaskManager(), or the first run_once())
            self.pre = False
            at = now0 if op == "mk" else now0 + req["d"] // self.tpu
            for tid in sorted(self.pre_armed, key=self.pre_armed.get):
                if self.tasks[tid]["rec"]:
                    self.arm(tid, self.grid_next(tid, at))
                    self.pending[tid][2] = False
                else:
                    self.arm(tid, self.tt[tid])
        elif self.pre:
            raised = any(e[0] == "raised" for e in rep["out"])
            if op == "at":
                self.tt[t] = req["when"] // self.tpu
                self.pre_armed[t] = self.inst; self.inst += 1
            elif op == "bare" and self.tt[t] is not None:
                self.pre_armed[t] = self.inst; self.inst += 1
            elif op == "rec":
                if req["iv"] is not None:
                    self.iv[t] = req["iv"]
                if req["off"] is not None:
                    self.off[t] = req["off"]
                if self.iv[t]:
                    self.pre_armed[t] = self.inst; self.inst += 1
            elif op == "suspend":
                # suspended is suspended, manager or not: the task must not be armed later, and
                # suspending a task that is not scheduled is a silent no-op as with a manager
                self.pre_armed.pop(t, None)
                if raised:
                    fail("pre-manager", "suspend_task before the manager exists raised %r" % (rep["out"],))
            if op in ("at", "bare", "rec") and raised and t in self.pre_armed and op != "bare" and \
                    not (op == "rec" and not self.iv[t]):
                fail("pre-manager", "install before the manager exists raised %r" % (rep["out"],))
        elif op == "at":
            self.arm(t, req["when"] // self.tpu)
        elif op == "after":
            self.arm(t, now0 + req["d"] // self.tpu)
        elif op in ("bare", "resume"):
            if self.tt[t] is not None:
                self.arm(t, self.tt[t])
        elif op == "suspend":
            self.pending.pop(t, None)
        elif op == "rec":
            if req["iv"] is not None:
                self.iv[t] = req["iv"]
            if req["off"] is not None:
                self.off[t] = req["off"]
            if self.iv[t]:
                want = self.grid_next(t, now0)
                got = dg["ttime"][t]
                if got is None or not self.near(got, want):
                    fail("recurring-grid", "installed at %s us: first slot %r, exact grid says %s"
                         % (now0, got, float(want)), interval_ticks=self.iv[t])
                else:
                    self.arm(t, got)
        if op in ("next", "once", "run", "jump"):
            inst0 = self.inst             # installations made from here on happen during the pass
            rearm = None                  # recurring re-install, due after the body's own acts
            for ev in rep["out"] + [["end"]]:
                if ev[0] != "act" and rearm is not None:
                    rtid, want = rearm
                    rearm = None
                    self.pending[rtid] = [want, self.inst, want.denominator == 1 and self.tol == 0]
                    self.inst += 1
                    self.tt[rtid] = want
                if ev[0] == "act":
                    if ev[1] in ("at", "after"):
                        _a, kind, tid, reqv, anow, due = ev
                        want = reqv if kind == "at" else anow + reqv
                        if due is None or not self.near(due, want):
                            fail("act-due", "task %d installed from inside a callback (%s %d at %d): "
                                 "taskTime %r" % (tid, kind, reqv, anow, due))
                        else:
                            self.arm(tid, due)
                    elif ev[1] == "suspend":
                        self.pending.pop(ev[2], None)
                    continue
                if ev[0] != "fire":
                    continue
                _f, tid, fnow, fdue = ev
                p = self.pending.get(tid)
                if p is None:
                    fail("fired-unscheduled", "task %d fired at %d but is not scheduled "
                         "(suspended, never installed, moved away, or already fired)" % (tid, fnow))
                    continue
                if not self.near(fdue, p[0]):
                    fail("wrong-due", "task %d fired with due %d, scheduled for %s" % (tid, fdue, p[0]))
                if fnow < fdue or fnow + 0.5 + self.tol < p[0]:
                    fail("early", "task %d due %s fired at %d" % (tid, p[0], fnow))
                for o, q in self.pending.items():
                    if o == tid:
                        continue
                    # q should have fired first if it is earlier by more than the comparison
                    # granularity, or collides exactly and was installed earlier
                    earlier = (q[0] < p[0] and not self.near(q[0], p[0])) or \
                              (q[0] == p[0] and p[2] and q[2] and q[1] < p[1])
                    if earlier:
                        fail("order", "task %d (due %s, installation %d) fired before task %d "
                             "(due %s, installation %d)" % (tid, p[0], p[1], o, q[0], q[1]))
                del self.pending[tid]
                if self.tasks[tid]["rec"] and self.iv[tid]:
                    rearm = (tid, self.grid_next(tid, fnow))
            aux = rep["aux"]
            if op != "next":
                if aux not in (1, 2) or (aux == 2 and op != "run" and op != "jump"):
                    fail("no-quiescence", "the loop did not come to rest")
                elif aux == 1:
                    for tid, p in self.pending.items():
                        # run_once decides whether to go round again BEFORE the body runs: what a
                        # callback installs for "now" during the pass may be left for the next pass
                        if op == "once" and p[1] >= inst0:
                            continue
                        if p[0] + 0.5 + self.tol < self.now:
                            fail("due-not-fired", "task %d due %s still queued after a complete pass "
                                 "at %d" % (tid, float(p[0]), self.now))
                    if (sorted(impl.calls) != sorted(impl.subs)) if self.pumps else (impl.calls != impl.subs):
                        fail("deferred", "submitted %r, called %r" % (impl.subs, impl.calls),
                             lost=len(impl.subs) - len(impl.calls))
        # deferred functions, after every operation: what was called is a prefix of what was
        # submitted and the queue holds exactly the rest, in order — nothing lost, ever
        nc = len(impl.calls)
        if self.pumps:
            if sorted(impl.calls + dg["queue"]) != sorted(impl.subs):
                fail("deferred", "submitted %r, called %r, queued %r: not each exactly once"
                     % (impl.subs, impl.calls, dg["queue"]),
                     lost=len(impl.subs) - nc - len(dg["queue"]))
        elif impl.calls != impl.subs[:nc]:
            fail("deferred", "submitted %r, called %r" % (impl.subs, impl.calls))
        elif dg["queue"] != impl.subs[nc:]:
            fail("deferred", "submitted %r, called %r, but the queue holds %r: %d lost"
                 % (impl.subs, impl.calls, dg["queue"], len(impl.subs) - nc - len(dg["queue"])),
                 lost=len(impl.subs) - nc - len(dg["queue"]))
        # the schedule itself: one entry per task, present iff flagged, at the due time
        tids = [e[2] for e in dg["heap"]]
        if len(set(tids)) != len(tids):
            fail("duplicate-entry", "a task has two heap entries: %r" % (dg["heap"],))
        if set(tids) != set(self.pending):
            fail("schedule", "heap holds tasks %r, property says %r" % (sorted(tids), sorted(self.pending)))
        else:
            for due, _n, tid in dg["heap"]:
                p = self.pending[tid]
                if not self.near(due, p[0]):
                    fail("schedule", "task %d queued for %d, property says %s" % (tid, due, float(p[0])))
                elif p[0] != due:
                    p[0] = due            # adopt the implementation's own rounding of a slot
                    self.tt[tid] = due
        for tid, f in enumerate(dg["flags"]):
            if f != (tid in tids):
                fail("flag", "task %d: isScheduled=%r but %s in the heap" % (tid, f, "is" if tid in tids else "not"))
        if "to" in req:
            self.save(req["to"])


# --------------------------------------------------------------------------
# running scenarios

def sig(stream, req, rep):
    evs = tuple(e[0] for e in rep.get("out", []))
    if len(evs) > 6:
        evs = evs[:5] + ("+",)
    dg = rep.get("digest", {})
    return (req["op"], evs, min(len(dg.get("heap", ())), 3), rep.get("aux") is None or rep.get("aux") > 0,
            bool(dg.get("queue")))


def trivial(req, rep):
    return req["op"] in ("tick",) or (not rep.get("out") and req["op"] in ("next", "once", "run", "jump"))


def snap_tol(a, b):
    """replace numbers of `a` that are within 1 of the model's by the model's (epoch-magnitude
    clocks: a double resolves 0.24 us there, the comparison granularity is 1 us)"""
    if isinstance(a, bool) or isinstance(b, bool):
        return a
    if isinstance(a, int) and isinstance(b, int):
        return b if abs(a - b) <= 1 and a > 10**12 else a
    if isinstance(a, list) and isinstance(b, list) and len(a) == len(b):
        return [snap_tol(x, y) for x, y in zip(a, b)]
    if isinstance(a, dict) and isinstance(b, dict):
        return {k: (snap_tol(v, b[k]) if k in b else v) for k, v in a.items()}
    return a


def requests_of(scn):
    reqs = [{"op": "reset", "tpu": scn.get("tpu", 1), "tasks": scn["tasks"]}]
    if scn.get("premgr"):
        reqs[0]["premgr"] = True
    if scn.get("base"):
        reqs.append({"op": "tick", "d": scn["base"]})
    return reqs + scn["ops"]


def run_scenarios(ctx, stream, scns):
    """lockstep + oracle over self-contained scenarios"""
    impl = Impl.get()
    all_reqs, impl_reps, owners = [], [], []
    for si, scn in enumerate(scns):
        if len(ctx.failures) > MAX_FAILS or Impl.overruns > MAX_OVERRUNS:
            ctx.notes.append("%s: stopped after %d of %d scenarios (%d property failures, %d loops "
                             "that did not come to rest)" % (stream, si, len(scns), len(ctx.failures),
                                                             Impl.overruns))
            scns = scns[:si]
            break
        orc = Oracle(scn)
        reqs = requests_of(scn)
        nfail = [0]
        for ri, req in enumerate(reqs):
            rep = impl.do(req)
            if nfail[0]:
                break                 # a history that already broke the property tells nothing more
            if req["op"] != "reset":
                def fail(kind, what, _ri=ri, **fields):
                    nfail[0] += 1
                    if nfail[0] <= 3:
                        k = _ri - (len(reqs) - len(scn["ops"])) + 1
                        ctx.fail(kind, dict(scn, ops=scn["ops"][:k], stream=stream), what, **fields)
                orc.step(req, rep, impl, fail)
            all_reqs.append(req); impl_reps.append(rep); owners.append((si, ri))
    if not ctx.model_ok:
        ctx.count(stream, n=len(all_reqs))
        return
    model_reps = core.Driver("drv_c14").ask(all_reqs)
    ctx.streams[stream] += len(all_reqs)
    bad = set()
    for req, a, b, (si, ri) in zip(all_reqs, impl_reps, model_reps, owners):
        if b.get("r") == "bad-request":
            raise core.Infra("model rejected %r: %r" % (req, b))
        if req["op"] == "reset":
            continue
        scn = scns[si]
        if scn.get("tol"):
            a = snap_tol(a, b)
        ctx.count(stream, sig(stream, req, b), trivial=trivial(req, b))
        if a != b and si not in bad:
            bad.add(si)           # later operations of a diverged history carry no information
            k = ri - (len(requests_of(scn)) - len(scn["ops"])) + 1
            ctx.disagree(stream, dict(scn, ops=scn["ops"][:k], stream=stream), a, b)
    for scn in scns[:2]:
        ctx.sample({"stream": stream, "tasks": len(scn["tasks"]), "ops": scn["ops"][:8]})


# --------------------------------------------------------------------------
# dfs stream: all histories up to length L

PLAIN = {"rec": False, "raises": False, "defers": []}


def dfs_alphabet(k):
    """operations available when k tasks have been touched so far: (request, tasks touched after)"""
    out = []
    for t in range(min(k + 1, 4)):
        k2 = max(k, t + 1)
        out.append(({"op": "at", "t": t, "when": D}, k2))
        out.append(({"op": "after", "t": t, "d": D}, k2))
        out.append(({"op": "suspend", "t": t}, k2))
        out.append(({"op": "resume", "t": t}, k2))
        out.append(({"op": "bare", "t": t}, k2))
    out.append(({"op": "once", "d": D}, k))
    out.append(({"op": "run", "d": D, "fuel": DFS_FUEL}, k))
    return out


def dfs_prefixes(depth):
    """all canonical histories of exactly `depth` operations"""
    res = [([], 0)]
    for _ in range(depth):
        res = [(p + [r], k2) for (p, k) in res for (r, k2) in dfs_alphabet(k)]
    return res


def dfs_subtree(prefix, k, L, last_adv=False):
    """request list enumerating every extension of `prefix` up to total length L, depth first,
    one line per history: restore the parent's snapshot, do the operation, save.
    last_adv: at length L only the histories ending in an advance are listed — the others have
    the firing log of their prefix of length L-1, which is listed."""
    reqs = []
    parents = []          # index of the parent request, for path reconstruction
    if not prefix:
        prefix = [{"op": "tick", "d": 0}]
        L += 1
    d0 = len(prefix)
    for i, r in enumerate(prefix):
        q = dict(r)
        if i == d0 - 1:
            q["to"] = d0
        reqs.append(q); parents.append(i - 1)

    def rec(depth, k, parent):
        for r, k2 in dfs_alphabet(k):
            if last_adv and depth + 1 == L and r["op"] not in ("once", "run"):
                continue
            q = dict(r)
            q["from"] = depth
            if depth + 1 < L:
                q["to"] = depth + 1
            reqs.append(q); parents.append(parent)
            if depth + 1 < L:
                rec(depth + 1, k2, len(reqs) - 1)
    if d0 < L:
        rec(d0, k, d0 - 1)
    return reqs, parents


def path_of(reqs, parents, i):
    p = []
    while i >= 0:
        p.append({k: v for k, v in reqs[i].items() if k not in ("from", "to")})
        i = parents[i]
    return p[::-1]


class AsyncDriver:
    """core.Driver.ask, but the model runs while the implementation side is being executed"""

    def __init__(self, requests):
        import subprocess, tempfile
        self.n = len(requests)
        self.fin = tempfile.TemporaryFile("w+")
        for r in requests:
            self.fin.write(json.dumps(r, separators=(",", ":")) + "\n")
        self.fin.flush(); self.fin.seek(0)
        self.fout = tempfile.TemporaryFile("w+b")
        self.p = subprocess.Popen([core.Driver("drv_c14").exe], stdin=self.fin, stdout=self.fout,
                                  stderr=subprocess.PIPE)

    def result(self, timeout=3000):
        import subprocess
        try:
            _o, err = self.p.communicate(timeout=timeout)
        except subprocess.TimeoutExpired:
            self.p.kill()
            raise core.Infra("driver timed out")
        if self.p.returncode != 0:
            raise core.Infra("driver failed rc=%s: %s" % (self.p.returncode, err.decode()[-500:]))
        self.fout.seek(0)
        lines = self.fout.read().decode().split("\n")
        self.fin.close(); self.fout.close()
        if lines and lines[-1] == "":
            lines.pop()
        if len(lines) != self.n:
            raise core.Infra("driver answered %d of %d requests" % (len(lines), self.n))
        return [json.loads(l) for l in lines]


def shard_dfs(ctx, spec):
    L, prefixes = spec[0], spec[1]
    last_adv = len(spec) > 2 and spec[2]
    impl = Impl.get()
    tasks = [PLAIN] * 4
    head = [{"op": "reset", "tpu": 1, "tasks": tasks}]
    for prefix, k in prefixes:
        if len(ctx.failures) > MAX_FAILS or Impl.overruns > MAX_OVERRUNS:
            ctx.notes.append("dfs shard stopped early after %d property failures, %d loops that did "
                             "not come to rest" % (len(ctx.failures), Impl.overruns))
            break
        reqs, parents = dfs_subtree(prefix, k, L, last_adv)
        drv = AsyncDriver(head + reqs) if ctx.model_ok else None
        scn = {"tpu": 1, "tasks": tasks, "ops": []}
        orc = Oracle(scn)
        impl.do(head[0])
        reps = []
        for i, req in enumerate(reqs):
            rep = impl.do(req)

            def fail(kind, what, _i=i, **fields):
                ctx.fail(kind, dict(scn, ops=path_of(reqs, parents, _i), stream="dfs"), what, **fields)
            orc.step(req, rep, impl, fail)
            reps.append(rep)
        ctx.streams["dfs"] += len(reqs)
        if drv is None:
            ctx.count("dfs", n=len(reqs))
            continue
        mreps = drv.result()[1:]
        ndis = 0
        for i, (req, a, b) in enumerate(zip(reqs, reps, mreps)):
            if b.get("r") == "bad-request":
                raise core.Infra("model rejected %r: %r" % (req, b))
            ctx.count("dfs", sig("dfs", req, b), trivial=trivial(req, b))
            if a != b:
                ndis += 1
                if ndis <= 2:
                    ctx.disagree("dfs", dict(scn, ops=path_of(reqs, parents, i), stream="dfs"), a, b)
    ctx.sample({"stream": "dfs", "L": L, "first_prefix": prefixes[0][0] if prefixes else None})


def dfs_specs(ctx, L, last_adv=False):
    """the shard specs of the dfs stream (for the common pool of `run`)"""
    depth = 2 if L <= 6 else 3
    pre = dfs_prefixes(depth)
    nshard = 64 if L > 6 else 32
    specs = [(L, pre[i::nshard], last_adv) for i in range(nshard) if pre[i::nshard]]
    # shorter histories are the inner nodes of the subtrees, except those shorter than the
    # prefixes: one extra subtree rooted at the empty history, cut at `depth`
    specs.append((depth, [([], 0)]))
    ctx.extra["dfs_length"] = L
    ctx.extra["dfs_last_operation_of_longest_histories"] = "advance only" if last_adv else "any"
    return specs


def shard_any(ctx, spec):
    """one pool for all streams: (shard function name, its spec)"""
    fn, sub = spec
    globals()[fn](ctx, sub)


def run_dfs(ctx, L, last_adv=False):
    depth = 2 if L <= 6 else 3
    pre = dfs_prefixes(depth)
    # shorter histories are the inner nodes of the subtrees, except those shorter than the
    # prefixes: cover them with one extra subtree rooted at the empty history cut at `depth`
    specs = []
    nshard = 64 if L > 6 else 32
    for i in range(nshard):
        chunk = pre[i::nshard]
        if chunk:
            specs.append((L, chunk, last_adv))
    core.run_shards(ctx, "harness.c14", "shard_dfs", specs)
    core.run_shards(ctx, "harness.c14", "shard_dfs", [(depth, [([], 0)])], procs=1)
    ctx.extra["dfs_length"] = L
    ctx.extra["dfs_last_operation_of_longest_histories"] = "advance only" if last_adv else "any"


# --------------------------------------------------------------------------
# random stream

G = 15625            # 1/64 s in us: every multiple is an exact double


PUMPS_LEFT = [0]     # pumping callbacks still allowed in the history being generated (the
                     # model nests four levels deep; three pumping callbacks cannot nest deeper)


def rand_acts(rng, me, p):
    """re-entrant acts for the random stream: installs are always `after d` with d > 0 and
    only of one-shot tasks (0..3), so every chain of re-arming moves forward in time"""
    acts = []
    if rng.random() >= p:
        return acts
    if PUMPS_LEFT[0] > 0 and (me is None or me < 4) and rng.random() < 0.12:
        PUMPS_LEFT[0] -= 1
        return [["pump"]] if rng.random() < 0.6 else [["after", rng.randrange(4), 8 * G], ["pump"]]
    for _ in range(rng.choice([1, 1, 2])):
        r = rng.random()
        if r < 0.35 and me is not None and me < 4:
            acts.append(["after", me, rng.choice([8, 16]) * G])
        elif r < 0.6:
            acts.append(["after", rng.randrange(4), rng.choice([8, 16, 32]) * G])
        elif r < 0.93:
            acts.append(["suspend", rng.randrange(6)])
        else:
            acts.append(["stop"])
    return acts


def fn_spec(rng, ids, depth=0, pacts=0.0):
    i = ids[0]; ids[0] += 1
    kids = []
    if depth < 2:
        for _ in range(rng.choice([0, 0, 0, 1, 2])):
            kids.append(fn_spec(rng, ids, depth + 1, pacts))
    f = {"id": i, "r": rng.random() < 0.3, "k": kids, "kind": rng.randrange(KINDS)}
    acts = rand_acts(rng, None, pacts)
    if acts:
        f["a"] = acts
    elif f["r"] and not kids and rng.random() < 0.4:
        f["fl"] = rng.randrange(5)        # raises without a Python frame of its own
    return f


def gen_random(rng, n_ops, reentrant=False):
    """reentrant: task bodies and deferred functions use the scheduler themselves.  The clock then
    starts at 2^30 s + 1/64 s, where every time in play (multiples of 1/64 s, the recurring slots,
    now + 1 us rounded to 2^-22 s) is an exact double, so collisions of one-shot deadlines with
    recurring slots are exact ties on both sides."""
    ids = [1]
    tasks = []
    PUMPS_LEFT[0] = 3 if reentrant else 0
    pa = 0.5 if reentrant else 0.0
    pf = 0.3 if reentrant else 0.0
    # four one-shot tasks (two classes), two recurring tasks on disjoint grids that no
    # harness-chosen instant ever touches (instants are 1/64 + m/8 s, slots are multiples of 1/8 s)
    for i in range(4):
        tasks.append({"rec": False, "raises": rng.random() < 0.3, "kind": rng.randrange(KINDS + 1),
                      "defers": [fn_spec(rng, ids, 0, pf) for _ in range(rng.choice([0, 0, 1, 2]))]})
        acts = rand_acts(rng, i, pa)
        if acts:
            tasks[-1]["a"] = acts
    for i in range(2):
        tasks.append({"rec": True, "raises": rng.random() < 0.3, "kind": rng.randrange(KINDS + 1),
                      "defers": [fn_spec(rng, ids, 0, pf) for _ in range(rng.choice([0, 0, 1]))]})
        acts = [a for a in rand_acts(rng, 9, pa)]       # (9: a recurring body never pumps)
        if acts:
            tasks[-1]["a"] = acts
    base = (1 << 30 if reentrant else rng.choice([0, 1 << 30])) * 1000000 + G
    # recurring parameters (us): grids k/4 and 1/8 + k/2  — disjoint
    recp = {4: [(250000, None), (250000, 0), (500000, 250000)], 5: [(500000, 125000), (1000000, 625000)]}
    ops = []
    now = base
    times = [base + k * G * 8 for k in range(0, 12)]
    for _ in range(n_ops):
        r = rng.random()
        t = rng.randrange(4)
        if r < 0.14:
            ops.append({"op": "at", "t": t, "when": rng.choice(times[:6]) if rng.random() < 0.7
                        else now + rng.choice([0, 8, 16, 32]) * G})
        elif r < 0.26:
            ops.append({"op": "after", "t": t, "d": rng.choice([0, 8, 8, 16, 32]) * G})
        elif r < 0.32:
            ops.append({"op": "bare", "t": t})
        elif r < 0.42:
            ops.append({"op": "suspend", "t": rng.randrange(6)})
        elif r < 0.50:
            ops.append({"op": "resume", "t": rng.randrange(6)})
        elif r < 0.60:
            t = rng.choice([4, 5])
            q = rng.random()
            if q < 0.7:
                iv, off = rng.choice(recp[t])
            elif q < 0.8:
                iv, off = None, None
            elif q < 0.9:
                iv, off = 0, None
            else:
                iv, off = None, rng.choice(recp[t])[1]
            ops.append({"op": "rec", "t": t, "iv": iv, "off": off})
        elif r < 0.66:
            ops.append({"op": "defer", "f": fn_spec(rng, ids, 0, pf)})
        elif r < 0.70:
            d = rng.choice([0, 8, 16]) * G
            now += d
            ops.append({"op": "tick", "d": d})
        elif r < 0.78:
            ops.append({"op": "next"})
        elif r < 0.88:
            d = rng.choice([0, 8, 8, 16, 64]) * G
            now += d
            ops.append({"op": "once", "d": d})
        elif r < 0.97:
            d = rng.choice([0, 8, 8, 16, 64]) * G
            now += d
            ops.append({"op": "run", "d": d, "fuel": FUEL})
        else:
            ops.append({"op": "jump", "fuel": FUEL})
    return {"tpu": 1, "base": base, "tasks": tasks, "ops": ops}


def fix_random(scn):
    """a jump may land the clock on a recurring slot; later harness instants are then no longer
    odd multiples of 1/128 s away from the grid.  Keep jumps only as the last operation."""
    ops = []
    for o in scn["ops"]:
        ops.append(o)
        if o["op"] == "jump":
            break
    scn["ops"] = ops
    return scn


def shard_random(ctx, spec):
    label, n, n_ops = spec
    rng = ctx.sub_rng("c14-random-%s" % label)
    scns = []
    for i in range(n):
        scn = gen_random(rng, n_ops, reentrant=(i % 2 == 1))
        if i % 4 == 0:
            scn = fix_random(scn)
        else:
            scn["ops"] = [o for o in scn["ops"] if o["op"] != "jump"]
        scns.append(scn)
    run_scenarios(ctx, "random", scns)


# --------------------------------------------------------------------------
# recurring grid stream (1 tick = 1/3 us)

TPU = 3


def grid_scenarios(ctx, rng):
    MS = 1000 * TPU
    intervals = [100 * MS, 300 * MS, 1000000, 250 * MS, 1000 * MS, 7 * MS, 1500 * MS // 1000 * 1000, 300]
    # 0.1 s, 0.3 s, 1/3 s, 0.25 s, 1 s, 7 ms, 1.5 s, 100 us
    bases_s = [0, 86400 * 12, 1000000000, 1700000000]
    scns = []
    for iv in intervals:
        offs = [None, 0, iv // 2, iv // 3 if (iv // 3) * 3 == iv else iv // 4, 100000, iv + iv // 4, 5 * iv]
        for off in offs:
            for base_s in bases_s:
                for phase_us in ([0, 123456, 999998, 333332] if not ctx.quick or rng.random() < 0.6 else [123456]):
                    base = (base_s * 1000000 + phase_us) * TPU
                    # skip installs within 1 us of the point where the floor flips (float noise
                    # decides there; the exact model skips a slot that is <= 1 us away)
                    r = (base + TPU - (off or 0)) % iv
                    if r < 3 or r > iv - 3:
                        continue
                    ops = [{"op": "rec", "t": 0, "iv": iv, "off": off}]
                    k = 6 if ctx.quick else 25
                    ops += [{"op": "jump", "fuel": GRID_FUEL} for _ in range(k)]
                    kind = rng.randrange(4)
                    if kind == 0:
                        ops += [{"op": "suspend", "t": 0}, {"op": "tick", "d": 2 * iv + 5 * TPU},
                                {"op": "resume", "t": 0}, {"op": "jump", "fuel": GRID_FUEL}, {"op": "jump", "fuel": GRID_FUEL}]
                    elif kind == 1:
                        # a late pass: several slots go by, no catch-up
                        d = 3 * iv + iv // 2
                        ops += [{"op": "once", "d": d}, {"op": "jump", "fuel": GRID_FUEL}]
                    elif kind == 2:
                        ops += [{"op": "rec", "t": 0, "iv": None, "off": None}, {"op": "jump", "fuel": GRID_FUEL}]
                    else:
                        iv2 = rng.choice(intervals)
                        ops += [{"op": "tick", "d": 17 * TPU}]
                        ops += [{"op": "rec", "t": 0, "iv": iv2, "off": None}, {"op": "jump", "fuel": GRID_FUEL},
                                {"op": "jump", "fuel": GRID_FUEL}]
                    scns.append({"tpu": TPU, "base": base, "tol": 1 if base_s >= 10**9 else 0,
                                 "tasks": [{"rec": True, "raises": (len(scns) % 5 == 0), "defers": []}],
                                 "ops": ops})
    return scns


# --------------------------------------------------------------------------
# deferred stream

def deferred_scenarios(ctx, kbase=0):
    """every subset of raising members of batches of 1..6, in four shapes, under both loops.
    kbase rotates the KIND of callable (plain function, lambda, functools.partial, bound method,
    callable instance, partial around a builtin) through the members: over kbase = 0..5 every
    member of every batch is of every kind, raising and not, deferring further work and not."""
    scns = []

    def kd(i):
        return (kbase + i) % KINDS
    for n in range(1, 7):
        for mask in range(1 << n):
            rs = [(mask >> i) & 1 == 1 for i in range(n)]
            shapes = []
            shapes.append([{"id": i, "r": rs[i], "k": [], "kind": kd(i)} for i in range(n)])
            shapes.append([{"id": i, "r": rs[i], "kind": kd(i),
                            "k": [{"id": 10 + i, "r": rs[n - 1 - i], "k": [], "kind": kd(i + 3)}]}
                           for i in range(n)])
            chain = {"id": 30, "r": rs[0], "kind": kd(1),
                     "k": [{"id": 31, "r": rs[-1], "kind": kd(2),
                            "k": [{"id": 32, "r": False, "k": [], "kind": kd(3)},
                                  {"id": 33, "r": rs[0], "k": [], "kind": kd(4)}]}]}
            shapes.append([{"id": i, "r": rs[i], "kind": kd(i), "k": ([chain] if i == n // 2 else [])}
                           for i in range(n)])
            # flat again, every raising member WITHOUT a Python frame of its own: builtin bound
            # methods ({}.pop, [].index), C callables (partial(int, ...), partial(operator.getitem,
            # ...)), a zero-argument function called with three arguments
            if mask:
                shapes.append([dict(f, fl=kbase + i) if f["r"] else f for i, f in enumerate(shapes[0])])
            for si, fns in enumerate(shapes):
                for loop in ("once", "run"):
                    adv = {"op": loop, "d": 0}
                    if loop == "run":
                        adv["fuel"] = FUEL
                    scns.append({"tpu": 1, "tasks": [PLAIN], "ops": [{"op": "defer", "f": f} for f in fns] + [adv]})
            # submitted by a (possibly raising) task body, other tasks due at the same time;
            # the tasks are function tasks around every kind of callable as well
            for loop in ("once", "run"):
                adv = {"op": loop, "d": D}
                if loop == "run":
                    adv["fuel"] = FUEL
                tasks = [{"rec": False, "raises": rs[0], "defers": shapes[0], "kind": (kbase + n) % (KINDS + 1)},
                         {"rec": False, "raises": False, "defers": [], "kind": (kbase + n + 2) % (KINDS + 1)},
                         {"rec": False, "raises": rs[-1], "kind": (kbase + n + 4) % (KINDS + 1),
                          "defers": [{"id": 40, "r": rs[0], "k": [], "kind": kd(5)}]}]
                scns.append({"tpu": 1, "tasks": tasks,
                             "ops": [{"op": "at", "t": 0, "when": D}, {"op": "at", "t": 1, "when": D},
                                     {"op": "after", "t": 2, "d": D}, adv]})
    return scns


def shard_deferred(ctx, kbase):
    run_scenarios(ctx, "deferred", deferred_scenarios(ctx, kbase))


# --------------------------------------------------------------------------
# re-entrant bodies: a task (or a deferred function) uses the scheduler while it runs

def reentrant_scenarios(ctx):
    """task 0 is the actor: its body — or a function it defers — installs itself / another task,
    suspends itself / another task, stops the loop; possibly raising afterwards.  Tasks 1 and 2
    are due at the same instant.  Then the history goes on: the actor is re-installed, resumed,
    suspended, ... and time passes, so that a stale flag or a duplicated entry shows."""
    T8 = 8 * D
    variants = [
        [], [["after", 0, D]], [["at", 0, T8]], [["after", 1, D]], [["after", 1, 0]], [["at", 1, T8]],
        [["suspend", 1]], [["suspend", 2]], [["suspend", 0]], [["stop"]],
        [["after", 0, D], ["suspend", 1]], [["suspend", 1], ["after", 1, D]],
        [["after", 0, D], ["after", 0, 2 * D]], [["after", 0, D], ["suspend", 0]],
        [["after", 0, D], ["stop"]],
    ]
    followups = [
        [],
        [{"op": "at", "t": 0, "when": 3 * D}, "adv", "adv", "adv"],       # move the re-armed actor
        [{"op": "resume", "t": 0}, "adv", "adv"],
        [{"op": "suspend", "t": 0}, "adv", "adv"],
        [{"op": "bare", "t": 0}, "adv", "adv"],
        [{"op": "after", "t": 0, "d": 2 * D}, {"op": "after", "t": 0, "d": 3 * D}, "adv", "adv", "adv", "adv"],
        [{"op": "at", "t": 1, "when": 3 * D}, "adv", "adv", "adv"],
        ["adv", {"op": "at", "t": 0, "when": 4 * D}, "adv", "adv", "adv"],
    ]
    setups = [
        [{"op": "at", "t": 0, "when": D}, {"op": "at", "t": 1, "when": D}, {"op": "after", "t": 2, "d": D}],
        [{"op": "at", "t": 1, "when": D}, {"op": "after", "t": 2, "d": D}, {"op": "at", "t": 0, "when": D}],
    ]
    scns = []
    n = 0
    for vi, acts in enumerate(variants):
        for where in ("body", "fn"):
            for raises in (False, True):
                for si, setup in enumerate(setups):
                    for loop in ("once", "run"):
                        for fi, fu in enumerate(followups):
                            n += 1
                            if ctx.quick and (n + vi + fi) % 3:      # a third of the grid in quick
                                continue
                            adv = {"op": loop, "d": D}
                            if loop == "run":
                                adv["fuel"] = FUEL
                            actor = {"rec": False, "raises": raises, "defers": [], "kind": n % (KINDS + 1)}
                            if where == "body":
                                actor["a"] = acts
                            else:
                                actor["defers"] = [{"id": 1, "r": raises, "k": [{"id": 2, "r": False, "k": []}],
                                                    "a": acts, "kind": n % KINDS}]
                            tasks = [actor, dict(PLAIN, kind=(n + 1) % (KINDS + 1)),
                                     {"rec": False, "raises": False, "kind": (n + 2) % (KINDS + 1),
                                      "defers": [{"id": 5, "r": False, "k": [], "kind": (n + 3) % KINDS}]}]
                            ops = list(setup) + [adv] + [dict(adv) if o == "adv" else o for o in fu]
                            scns.append({"tpu": 1, "tasks": tasks, "ops": ops})
    return scns


def stop_scenarios(ctx):
    """core.run() stopped from inside: stop() called by a member of a deferred batch (every
    position) while the members defer more work (every subset) and one may raise; or by a task
    body.  Then a second run() / run_once().  Every submitted function must be called exactly
    once overall, in submission order."""
    scns = []
    for n in range(1, 5):
        for p in range(n):
            for mask in range(1 << n):
                for r in range(-1, n):
                    for second in ("run", "once"):
                        fns = []
                        for i in range(n):
                            f = {"id": i, "r": i == r, "kind": (i + p + mask) % KINDS,
                                 "k": [{"id": 10 + i, "r": False, "kind": (i + mask) % KINDS,
                                        "k": [{"id": 20 + i, "r": False, "k": []}] if i == p else []}]
                                 if (mask >> i) & 1 else []}
                            if i == p:
                                f["a"] = [["stop"]]
                            fns.append(f)
                        adv2 = {"op": second, "d": 0}
                        if second == "run":
                            adv2["fuel"] = FUEL
                        scns.append({"tpu": 1, "tasks": [PLAIN],
                                     "ops": [{"op": "defer", "f": f} for f in fns]
                                     + [{"op": "run", "d": D, "fuel": FUEL}, adv2, {"op": "once", "d": D}]})
    # stopped by a task body; every task defers a function that defers a child
    for stopper in range(3):
        for raises in (False, True):
            for second in ("run", "once"):
                tasks = []
                for i in range(3):
                    t = {"rec": False, "raises": raises and i == stopper, "kind": (i + stopper) % (KINDS + 1),
                         "defers": [{"id": i, "r": False, "kind": (i + 2) % KINDS,
                                     "k": [{"id": 10 + i, "r": False, "k": []}]}]}
                    if i == stopper:
                        t["a"] = [["stop"]]
                    tasks.append(t)
                adv2 = {"op": second, "d": D}
                if second == "run":
                    adv2["fuel"] = FUEL
                scns.append({"tpu": 1, "tasks": tasks,
                             "ops": [{"op": "at", "t": i, "when": D} for i in range(3)]
                             + [{"op": "run", "d": D, "fuel": FUEL}, adv2, {"op": "once", "d": 0}]})
    return scns


def pump_scenarios(ctx):
    """a callback pumps the loop itself: core.run_once() called from inside a deferred function
    (every position of batches of 1..4, every subset of members deferring children, every
    raising member, nesting depth 1 and 2) and from inside a task body (other tasks due at the
    same instant, functions pending).  Every submitted function must be called exactly once."""
    scns = []
    for n in range(1, 5):
        for p in range(n):
            for mask in range(1 << n):
                for r in range(-1, n):
                    for deep in (0, 1, 2):
                        # deep 1: a child deferred by an EARLIER member pumps again inside the nested
                        # pass (depth 2); deep 2: the pumper installs a task for "now" first, whose
                        # body pumps as well
                        if deep == 1 and not (p > 0 and (mask & 1)):
                            continue
                        for loop in ("once", "run"):
                            fns = []
                            for i in range(n):
                                kid = {"id": 10 + i, "r": i == r, "kind": (i + mask) % KINDS, "k": []}
                                if deep == 1 and i == 0:
                                    kid["a"] = [["pump"]]
                                    kid["k"] = [{"id": 20, "r": False, "k": []}]
                                f = {"id": i, "r": i == r, "kind": (i + p + mask) % KINDS,
                                     "k": [kid] if (mask >> i) & 1 else []}
                                if i == p:
                                    f["a"] = ([["after", 0, 0]] if deep == 2 else []) + [["pump"]]
                                fns.append(f)
                            tasks = [{"rec": False, "raises": False, "kind": (n + p) % (KINDS + 1),
                                      "defers": [{"id": 30, "r": False, "k": []}],
                                      "a": [["pump"]] if deep == 2 else []}]
                            adv = {"op": loop, "d": 0}
                            if loop == "run":
                                adv["fuel"] = FUEL
                            scns.append({"tpu": 1, "tasks": tasks,
                                         "ops": [{"op": "defer", "f": f} for f in fns] + [adv, {"op": "once", "d": D}]})
    # from a task body: tasks 0..2 due together, one of them pumps (before / after installing
    # another one for now, raising or not); functions are pending and more get deferred
    for pumper in range(3):
        for raises in (False, True):
            for extra in ([], [["after", 3, 0]], [["suspend", (pumper + 1) % 3]]):
                for loop in ("once", "run"):
                    tasks = []
                    for i in range(4):
                        t = {"rec": False, "raises": raises and i == pumper, "kind": (i + pumper) % (KINDS + 1),
                             "defers": [{"id": i, "r": False, "kind": (i + 1) % KINDS,
                                         "k": [{"id": 10 + i, "r": False, "k": []}]}]}
                        if i == pumper:
                            t["a"] = extra + [["pump"]]
                        tasks.append(t)
                    adv = {"op": loop, "d": D}
                    if loop == "run":
                        adv["fuel"] = FUEL
                    scns.append({"tpu": 1, "tasks": tasks,
                                 "ops": [{"op": "at", "t": i, "when": D} for i in range(3)]
                                 + [{"op": "defer", "f": {"id": 40, "r": False, "k": []}}, adv, {"op": "once", "d": D}]})
    return scns


def premgr_scenarios(ctx):
    """histories that begin BEFORE any TaskManager exists (tasks scheduled at import time): every
    sequence of up to 4 (quick) / 5 (thorough) operations over {install at D, install at 2D,
    re-install as is, suspend} x 3 tasks (canonical task naming), then the manager is created —
    by TaskManager(), by TaskManager() twice, or by the first core.run_once() — and time passes.
    Expected: every task armed at its LAST time, in the order of the LAST installs; a task
    suspended after its last install is not armed."""
    L = 4 if ctx.quick else 5
    tasks = [dict(PLAIN, kind=k) for k in (0, 2, 5)]
    tails = [
        [{"op": "mk"}, {"op": "once", "d": D}, {"op": "once", "d": D}],
        [{"op": "once", "d": D}, {"op": "once", "d": D}],
        [{"op": "mk"}, {"op": "mk"}, {"op": "run", "d": D, "fuel": FUEL}, {"op": "run", "d": D, "fuel": FUEL}],
        [{"op": "tick", "d": D}, {"op": "mk"}, {"op": "at", "t": 0, "when": 2 * D}, {"op": "once", "d": D}, {"op": "once", "d": D}],
    ]
    scns = []

    def rec(ops, k):
        if ops:
            tail = tails[len(scns) % len(tails)]
            scns.append({"tpu": 1, "premgr": True, "tasks": tasks, "ops": ops + [dict(o) for o in tail]})
        if len(ops) == L:
            return
        for t in range(min(k + 1, 3)):
            k2 = max(k, t + 1)
            for o in ({"op": "at", "t": t, "when": D}, {"op": "at", "t": t, "when": 2 * D},
                      {"op": "bare", "t": t}, {"op": "suspend", "t": t}):
                rec(ops + [o], k2)
    rec([], 0)
    # with a recurring task, deferred functions, the calls that are refused without a manager
    rng = ctx.sub_rng("c14-premgr")
    tasks2 = [dict(PLAIN, kind=1), dict(PLAIN, kind=3), {"rec": True, "raises": False, "defers": [], "kind": 0}]
    for n in range(120 if ctx.quick else 1500):
        ops, ids = [], 1
        for _ in range(rng.randrange(2, 9)):
            r = rng.random()
            t = rng.randrange(2)
            if r < 0.35:
                ops.append({"op": "at", "t": t, "when": rng.choice([D, 2 * D])})
            elif r < 0.45:
                ops.append({"op": "bare", "t": t})
            elif r < 0.60:
                t = rng.randrange(3)
                ops.append({"op": "suspend", "t": t})
            elif r < 0.72:
                ops.append({"op": "rec", "t": 2, "iv": 300000, "off": rng.choice([None, 50000])})
            elif r < 0.78:
                ops.append({"op": rng.choice(["after", "resume"]), "t": t, "d": D})
            elif r < 0.90:
                ops.append({"op": "defer", "f": {"id": ids, "r": rng.random() < 0.3, "k": [], "kind": rng.randrange(KINDS)}}); ids += 1
            else:
                ops.append({"op": "tick", "d": rng.choice([G, D])})
        tail = tails[n % 3]
        scns.append({"tpu": 1, "premgr": True, "tasks": tasks2,
                     "ops": ops + [dict(o) for o in tail] + [{"op": "once", "d": D}]})
    return scns


def shard_reentrant(ctx, spec):
    which, i, n = spec
    scns = {"reentrant": reentrant_scenarios, "stop": stop_scenarios, "pump": pump_scenarios,
            "premgr": premgr_scenarios}[which](ctx)
    run_scenarios(ctx, which, scns[i::n])


# --------------------------------------------------------------------------
# longrun: one long history in a process whose TaskManager keeps its REAL trigger

LONGRUN_OPS = 90000


MANAGERS = ["plain", "sub1", "sub2", "sub3", "mix1", "mix2", "mix3"]


def manager_class(btask, variant):
    """the class of the process's task manager: TaskManager itself, or derived from it over one,
    two, three levels, with and without mix-ins (a derived manager that adds tracing, a clock,
    statistics ... is what applications and the test-suite's TimeMachine do)"""
    TM = btask.TaskManager

    class Mixin(object):
        def stats(self):
            return len(self.tasks)

    if variant == "plain":
        return TM

    class Level1(TM):
        def __init__(self):
            TM.__init__(self)
            self.level = 1
    if variant == "sub1":
        return Level1

    class Level2(Level1):
        def process_task(self, task):
            Level1.process_task(self, task)
    if variant == "sub2":
        return Level2

    class Level3(Level2):
        def __init__(self):
            Level2.__init__(self)
            self.level = 3
    if variant == "sub3":
        return Level3

    class Mixed1(Mixin, TM):
        pass
    if variant == "mix1":
        return Mixed1

    class Mixed2(Mixin, Level1):
        pass
    if variant == "mix2":
        return Mixed2

    class Mixed3(Level2, Mixin):
        def __init__(self):
            Level2.__init__(self)
    if variant == "mix3":
        return Mixed3
    raise core.Infra("bad manager variant %r" % (variant,))


def longrun_child(seed, n_ops, mode, variant="plain", timing="before"):
    """Runs in a FRESH interpreter (python -m harness.c14 longrun ...): nothing of the rig above
    is installed — the TaskManager singleton is created by bacpypes itself with its real
    _Trigger (a pipe), only bacpypes.task._time is the virtual clock.  mode "once": driven by
    core.run_once() alone (nothing ever reads the pipe); mode "run": passes are made by the real
    core.run() with the real asyncore loop, ended by a deferred stop().  Every operation is
    cheap; more than 65536 of them call trigger.set().  Oracle: no call raises, every installed
    task fires exactly once, on time and never early, unless suspended or moved; every deferred
    function is called exactly once, in order.  Prints one JSON line."""
    import random
    core.bind_repo()
    import bacpypes.task as btask
    import bacpypes.core as bcore
    import gc
    clock = [1000.0]
    btask._time = lambda: clock[0]
    cls = manager_class(btask, variant)
    made = []

    def make_manager():
        made.append(cls())
        return made[0]

    def identity():
        """the instance that was created is THE task manager, and the only one"""
        tm0 = made[0]
        if btask._task_manager is not tm0:
            return "task._task_manager is %r, not the %s that was created" % (btask._task_manager, cls.__name__)
        if btask.TaskManager() is not tm0 or cls() is not tm0:
            return "TaskManager() / %s() does not return the instance that was created" % cls.__name__
        n = sum(1 for o in gc.get_objects() if isinstance(o, btask.TaskManager))
        if n != 1:
            return "%d task managers exist" % n
        return None
    # timing "after": the first installs happen BEFORE the manager is created
    tm = make_manager() if timing == "before" else None
    PRE = 0 if timing == "before" else 12
    real_trigger = None
    bcore.run._exception = bcore.run_once._exception = lambda *a: errors.append(repr(sys.exc_info()[1]))
    rng = random.Random(seed)
    fired, errors, calls = [], [], []
    K = 8
    STEP = 0.25

    class T(btask.OneShotTask):
        def __init__(self, k):
            btask.OneShotTask.__init__(self)
            self.k = k

        def process_task(self):
            fired.append((self.k, clock[0], self.taskTime))
    tasks = [T(k) for k in range(K)]
    stop_task = btask.FunctionTask(bcore.stop)
    pending = {}
    nsub = 0
    checked = 0
    sets = 0
    fail = None

    def one_pass():
        if mode == "once":
            bcore.run_once()
            return

        # a task due now, installed last, fires after everything else that is due: it stops the loop
        stop_task.install_task(when=clock[0])
        bcore.run(spin=0.001, sigterm=None, sigusr1=None)

    # watchdog: a pass that never returns (the loop waiting on a manager nobody feeds) must not
    # cost the whole budget of the check
    import signal
    state = {"i": 0, "what": "start"}
    limit = 20          # seconds for ONE pass (a legitimate pass takes microseconds)

    def on_alarm(*_a):
        print(json.dumps({"ok": False, "op": state["i"], "trigger": real_trigger, "sets": sets,
                          "what": "operation %d (%s) had not returned after %d s: the loop does not "
                                  "come to rest" % (state["i"], state["what"], limit)}))
        sys.stdout.flush()
        os._exit(0)
    signal.signal(signal.SIGALRM, on_alarm)
    for i in range(n_ops):
        r = rng.random()
        k = rng.randrange(K)
        state["i"] = i
        if i < PRE:
            r = 0.0                       # installs only while there is no manager, distinct tasks
            k = i % K
        elif tm is None:
            tm = make_manager()
        if i == PRE:
            real_trigger = type(tm.trigger).__name__ if tm.trigger is not None else None
        try:
            if r < 0.45:
                due = clock[0] + rng.randrange(4) * STEP
                what = "install_task(task %d, when=%r)%s" % (k, due, " [re-install of a pending task]" if k in pending else "")
                sets += 2 if k in pending else 1
                tasks[k].install_task(when=due)
                pending[k] = due
            elif r < 0.60:
                what = "suspend_task(task %d)" % k
                sets += 1
                tasks[k].suspend_task()
                pending.pop(k, None)
            elif r < 0.85:
                what = "deferred(function %d)" % nsub
                sets += 1
                n = nsub
                nsub += 1
                bcore.deferred(calls.append, n)
            else:
                what = "clock += %r; %s()" % (STEP, "run_once" if mode == "once" else "run")
                state["what"] = what
                clock[0] += STEP
                nf = len(fired)
                signal.alarm(limit)
                try:
                    one_pass()
                finally:
                    signal.alarm(0)
                new = fired[nf:]
                exp = sorted(k2 for k2, d2 in pending.items() if d2 <= clock[0])
                if sorted(f[0] for f in new) != exp:
                    fail = "tasks due %r, fired %r" % (exp, new)
                for k2, now2, tt in new:
                    if k2 in pending and (tt != pending[k2] or now2 < tt):
                        fail = "task %d due %r fired at %r with taskTime %r" % (k2, pending[k2], now2, tt)
                    pending.pop(k2, None)
                if len(calls) != nsub or calls[checked:] != list(range(checked, nsub)):
                    fail = "deferred: %d submitted, called %d (first difference at or after %d)" % (
                        nsub, len(calls), checked)
                checked = nsub
                if errors:
                    fail = "logged by the loop: %s" % errors[0]
                if fail is None and (len(fired) == len(new) or i % 64 == 0):
                    fail = identity()     # after the first pass, and now and then
            # the schedule after every operation: one entry per task, present iff pending
            if fail is None and tm is not None and (len(tm.tasks) != len(pending) or
                                 (i % 16 == 0 and sorted(t.k for _w, _n, t in tm.tasks) != sorted(pending))):
                fail = "heap holds %r, expected %r" % (sorted(t.k for _w, _n, t in tm.tasks), sorted(pending))
        except Exception as e:
            fail = "%s raised %s: %s" % (what, type(e).__name__, e)
        if fail:
            print(json.dumps({"ok": False, "op": i, "what": "operation %d (%s; about %d trigger.set() calls "
                                                              "so far): %s" % (i, what, sets, fail),
                              "trigger": real_trigger, "sets": sets}))
            return
    fail = identity()
    if fail:
        print(json.dumps({"ok": False, "op": n_ops, "what": "after the history: " + fail,
                          "trigger": real_trigger, "sets": sets}))
        return
    print(json.dumps({"ok": True, "ops": n_ops, "sets": sets, "fired": len(fired), "called": len(calls),
                      "trigger": real_trigger}))


def run_longrun(ctx, seed, n_ops, mode, variant="plain", timing="before"):
    import subprocess
    case = {"stream": "longrun", "seed": seed, "n_ops": n_ops, "mode": mode, "manager": variant,
            "created": timing + " the first install"}
    env = dict(os.environ, VERIF_REPO=core.REPO, PYTHONDONTWRITEBYTECODE="1")
    try:
        p = subprocess.run([sys.executable, "-m", "harness.c14", "longrun", str(seed), str(n_ops), mode,
                            variant, timing],
                           cwd=core.VERIF, env=env, stdout=subprocess.PIPE, stderr=subprocess.PIPE, timeout=300)
    except subprocess.TimeoutExpired:
        ctx.fail("longrun", case, "the long history did not finish in 300 s")
        return
    ctx.streams["longrun"] += n_ops
    try:
        res = json.loads(p.stdout.decode().strip().split("\n")[-1])
    except Exception:
        raise core.Infra("longrun child failed: rc=%s %s" % (p.returncode, p.stderr.decode()[-800:]))
    if res.get("trigger") is None:
        ctx.notes.append("longrun: this platform has no TaskManager trigger")
    if res["ok"]:
        ctx.count("longrun", ("ok", mode, variant, timing), n=n_ops)
        ctx.sample({"stream": "longrun", "mode": mode, "manager": variant, "ops": n_ops, "trigger_sets": res["sets"],
                    "fired": res["fired"], "called": res["called"], "trigger": res["trigger"]})
    else:
        ctx.count("longrun", ("fail", mode, variant, timing), n=res["op"] + 1)
        ctx.fail("longrun", dict(case, failing_op=res["op"]), res["what"])


def shard_longrun(ctx, spec):
    run_longrun(ctx, *spec)


# --------------------------------------------------------------------------
# entry points

def corpus_scenarios():
    out = []
    for p in sorted(glob.glob(os.path.join(core.VERIF, "corpus", "C14", "*.json"))):
        d = json.load(open(p))
        out.append(d["scenario"] if "scenario" in d else d)
    return out


def run(ctx):
    rng = ctx.sub_rng("c14")
    run_scenarios(ctx, "corpus", corpus_scenarios())
    lr_seed = ctx.sub_rng("c14-longrun").randrange(1 << 30)
    # the process's task manager is TaskManager itself / derived over 1..3 levels / with mix-ins,
    # created before / after the first installs; each in its own fresh interpreter
    variants = [(lr_seed + 100 + i, 600 if ctx.quick else 6000, "once" if (i + j) % 3 else "run", v, t)
                for i, v in enumerate(MANAGERS) for j, t in enumerate(("before", "after"))]
    # everything that is sharded goes through ONE pool (long jobs first), so that the wall time is
    # the CPU time over the cores and not a sum of barriers
    jobs = []
    if ctx.quick:
        jobs += [("shard_longrun", (lr_seed, LONGRUN_OPS, "once", "sub1", "after"))]
        jobs += [("shard_dfs", sp) for sp in dfs_specs(ctx, 5)]
        jobs += [("shard_random", ("q%d" % i, 25, 200)) for i in range(16)]
    else:
        jobs += [("shard_longrun", (lr_seed + i, LONGRUN_OPS * (1 + i % 2), "once", MANAGERS[i % 4],
                                    ("before", "after")[i % 2])) for i in range(4)]
        jobs += [("shard_longrun", (lr_seed + 10 + i, LONGRUN_OPS, "run", MANAGERS[4 + i], "before"))
                 for i in range(3)]
        jobs += [("shard_dfs", sp) for sp in dfs_specs(ctx, 7, last_adv=True)]
        jobs += [("shard_random", ("t%d" % i, 150, 200)) for i in range(64)]
    jobs += [("shard_grid", (i, 4)) for i in range(4)]
    jobs += [("shard_deferred", k) for k in range(KINDS)]
    jobs += [("shard_reentrant", (w, i, 8)) for w in ("reentrant", "stop", "pump", "premgr") for i in range(8)]
    jobs += [("shard_longrun", v) for v in variants]
    core.run_shards(ctx, "harness.c14", "shard_any", jobs)


def shard_grid(ctx, spec):
    i, n = spec
    run_scenarios(ctx, "grid", grid_scenarios(ctx, ctx.sub_rng("c14"))[i::n])


def search(ctx):
    """focused failing-input search: the oracle alone over more random histories and the
    deferred batches (the streams of `run` already evaluate the oracle on every case)"""
    ok, ctx.model_ok = ctx.model_ok, False
    try:
        core.run_shards(ctx, "harness.c14", "shard_search", [("s%d" % i, 40, 200) for i in range(16)])
    finally:
        ctx.model_ok = ok


def shard_search(ctx, spec):
    ctx.model_ok = False
    shard_random(ctx, spec)
    run_scenarios(ctx, "deferred", deferred_scenarios(ctx, int(spec[0][1:]) % KINDS))


def replay(ctx, payload):
    rec = payload.get("failure") or (payload.get("correspondence_disagreements") or [{}])[0]
    scn = rec.get("case") or payload.get("scenario")
    if not scn:
        raise core.Infra("nothing to replay")
    if scn.get("stream") == "longrun":
        run_longrun(ctx, scn["seed"], scn["n_ops"], scn["mode"], scn.get("manager", "plain"),
                    scn.get("created", "before").split()[0])
        return
    run_scenarios(ctx, "replay", [scn])


if __name__ == "__main__":
    if len(sys.argv) >= 5 and sys.argv[1] == "longrun":
        longrun_child(int(sys.argv[2]), int(sys.argv[3]), sys.argv[4], *sys.argv[5:7])
