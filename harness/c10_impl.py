"""
harness.c10_impl — property C10 evaluated directly on a REAL device stack.

Device under test: Application + WhoIsIAm / ReadWriteProperty /
ReadWritePropertyMultiple / DeviceCommunicationControl / File services, with a
few objects, on ASAP / SMAP / NSAP / vlan.Node — the repository's own classes.
Frames are injected as raw octets from a raw link node; replies are read off the
LAN by an independent decoder (harness.e2e.decode_apdu_header).

  dev = Device()                      # fresh device + raw peer on a fresh LAN
  out = dev.inject([frame, ...])      # same instant, then run to quiescence
  out["replies"]                      # [(decoded header, raw)] frames to the peer
  dev.residue()                       # leftover transactions / SSM timers
"""
from . import vt as _vt
from .e2e import decode_apdu_header

PEER = 10
PEERS = (10, 11, 12)          # raw link stations: 10 is the default sender; 11, 12 act as routers / other senders
DEVICE = 20


def build():
    import logging
    logging.getLogger("bacpypes").addHandler(logging.NullHandler())
    logging.getLogger("bacpypes").propagate = False
    from bacpypes.comm import bind, Client
    from bacpypes.pdu import Address, LocalBroadcast, PDU
    from bacpypes.vlan import Network, Node
    from bacpypes.app import Application
    from bacpypes.appservice import StateMachineAccessPoint, ApplicationServiceAccessPoint, SSM
    from bacpypes.netservice import NetworkServiceAccessPoint, NetworkServiceElement
    from bacpypes.local.device import LocalDeviceObject
    from bacpypes.service.device import WhoIsIAmServices, DeviceCommunicationControlServices
    from bacpypes.service.object import ReadWritePropertyServices, ReadWritePropertyMultipleServices
    from bacpypes.service.file import FileServices, LocalStreamAccessFileObject
    from bacpypes.object import AnalogValueObject, BinaryValueObject, MultiStateValueObject
    from bacpypes.primitivedata import CharacterString

    class _NSE(NetworkServiceElement):
        _startup_disabled = True

    class MemFile(LocalStreamAccessFileObject):
        def __init__(self, **kw):
            LocalStreamAccessFileObject.__init__(self, **kw)
            self._data = bytearray(b"0123456789")

        def __len__(self):
            return len(self._data)

        def read_stream(self, start_position, octet_count):
            end = start_position + octet_count
            return end >= len(self._data), bytes(self._data[start_position:end])

        def write_stream(self, start_position, data):
            if start_position == -1:
                start_position = len(self._data)
            self._data[start_position:start_position + len(data)] = data
            return start_position

    class DevApp(Application, WhoIsIAmServices, ReadWritePropertyServices,
                 ReadWritePropertyMultipleServices, DeviceCommunicationControlServices, FileServices):
        pass

    class RawPeer(Client):
        def __init__(self, lan, addr=PEER, log=None):
            Client.__init__(self)
            self.addr = addr
            self.node = Node(Address(addr), lan)
            bind(self, self.node)
            self.received = []
            self.log = log if log is not None else []     # (station, octets) of every peer, in arrival order

        def confirmation(self, pdu):
            self.received.append(bytes(pdu.pduData))
            self.log.append((self.addr, bytes(pdu.pduData)))

        def send(self, octets, dst=DEVICE):
            """dst None = link-level (local) broadcast"""
            self.request(PDU(octets, destination=LocalBroadcast() if dst is None else Address(dst)))

    class Device:
        def __init__(self, max_apdu=1024, seg='segmentedBoth', beside=None, address=DEVICE, own_lan=False):
            """a complete device stack.  `beside` = an existing Device of the same process: the new
            one shares its virtual clock and (unless `own_lan`) its LAN and raw stations, at `address`"""
            self.vt = _vt.VT.install()
            self.address = address
            if beside is None:
                self.vt.reset()
            if beside is None or own_lan:
                self.lan = Network(broadcast_address=LocalBroadcast())
            else:
                self.lan = beside.lan
            self.device = LocalDeviceObject(
                objectName="dut%d" % address, objectIdentifier=("device", address),
                maxApduLengthAccepted=max_apdu, segmentationSupported=seg,
                maxSegmentsAccepted=16, vendorIdentifier=999)
            self.app = DevApp(self.device)
            self.asap = ApplicationServiceAccessPoint()
            self.smap = StateMachineAccessPoint(self.device)
            self.smap.deviceInfoCache = self.app.deviceInfoCache
            self.nsap = NetworkServiceAccessPoint()
            self.nse = _NSE()
            bind(self.nse, self.nsap)
            bind(self.app, self.asap, self.smap, self.nsap)
            # what BIPSimpleApplication gives its services to reach down the stack
            self.app.asap, self.app.smap, self.app.nsap = self.asap, self.smap, self.nsap
            self.node = Node(Address(address), self.lan)
            self.nsap.bind(self.node)
            self.av = AnalogValueObject(objectIdentifier=("analogValue", 1), objectName="av1",
                                        presentValue=12.5, statusFlags=[0, 0, 0, 0],
                                        description=CharacterString("an analog value"))
            self.bv = BinaryValueObject(objectIdentifier=("binaryValue", 1), objectName="bv1",
                                        presentValue="inactive", statusFlags=[0, 0, 0, 0])
            self.mv = MultiStateValueObject(objectIdentifier=("multiStateValue", 1), objectName="mv1",
                                            presentValue=1, numberOfStates=3, statusFlags=[0, 0, 0, 0])
            self.file = MemFile(objectIdentifier=("file", 1), objectName="f1")
            for o in (self.av, self.bv, self.mv, self.file):
                self.app.add_object(o)
            if beside is None or own_lan:
                self.wire = []
                self.peers = dict((a, RawPeer(self.lan, a, self.wire)) for a in PEERS)
            else:
                self.wire = beside.wire
                self.peers = beside.peers
            self.peer = self.peers[PEER]
            self.vt.run()
            for p in self.peers.values():
                p.received = []
            del self.wire[:]
            self.SSM = SSM

        def bound(self):
            """seconds after which no transaction can still be alive when nothing more arrives:
            (retries + 1) x the longest timeout a state machine arms, plus a margin"""
            ld, sm = self.smap.localDevice, self.smap
            longest = max(ld.apduTimeout, 4 * ld.apduSegmentTimeout, sm.applicationTimeout)
            return (ld.numberOfApduRetries + 1) * longest / 1000.0 + 10.0

        def snapshot(self):
            return set(id(t) for (_w, t) in self.vt.pending())

        def leftover(self, baseline):
            """tasks scheduled now that were not scheduled at `baseline`:
            -> (all of them, those the unchanged code has no business keeping) as [description, seconds ahead].
            Legitimate: the re-enable timer of a DeviceCommunicationControl with a time duration (communication is
            not 'enable' now), the delayed Network-Number-Is answer of a station that KNOWS its network number."""
            allt, bad = [], []
            for (w, t) in self.vt.pending():
                if id(t) in baseline:
                    continue
                d = [describe_task(t), round(w - self.vt.now, 3)]
                allt.append(d)
                if d[0].endswith(":enable_communications") and self.smap.dccEnableDisable != 'enable':
                    continue
                if d[0].endswith(":network_number_is") and self.nsap.local_adapter.adapterNet is not None \
                        and self.nse.network_number_is_task is t:
                    continue
                bad.append(d)
            return allt, bad

        def inject(self, frames, settle=None):
            """all frames in the same instant; then run for a BOUNDED time (longer than any transaction
            can live) and note what is still scheduled (`late_tasks`, `unexpected_tasks`); then until
            nothing is left (or, with `settle`, only for that many seconds).  A frame is octets (sent by
            station PEER), a pair (sending station, octets) or a triple (station, octets, broadcast)."""
            n0 = len(self.peer.received)
            w0 = len(self.wire)
            e0 = len(self.vt.errors)
            base = self.snapshot()
            for f in frames:
                if isinstance(f, tuple):
                    # (station, octets) or (station, octets, True) for a link-level broadcast
                    self.peers[f[0]].send(f[1], None if (len(f) > 2 and f[2]) else DEVICE)
                else:
                    self.peer.send(f)
            late, bad = [], []
            if settle:
                ok = self.vt.run(until=self.vt.now + settle, max_loops=20000)
            else:
                ok = self.vt.run(until=self.vt.now + self.bound(), max_loops=20000)
                late, bad = self.leftover(base)
                ok = self.vt.run(max_loops=20000) and ok
            raw = self.peer.received[n0:]
            return {"terminated": ok,
                    "replies": [(decode_apdu_header(r), r) for r in raw],
                    "wire": [(a, decode_apdu_header(r), r) for (a, r) in self.wire[w0:]],
                    "late_tasks": late, "unexpected_tasks": bad,
                    "errors": self.vt.errors[e0:]}

        def residue(self):
            ssm_timers = [t for (_w, t) in self.vt.pending() if isinstance(t, self.SSM)]
            return {"client": len(self.smap.clientTransactions),
                    "server": len(self.smap.serverTransactions),
                    "ssm_timers": len(ssm_timers),
                    "dcc": getattr(self.smap, "dccEnableDisable", None)}

    return Device


def describe_task(task):
    """class of a scheduled task, with the function a FunctionTask / OneShotFunction wraps"""
    name = type(task).__name__
    try:
        f = task.process_task.__func__
        cells = dict(zip(f.__code__.co_freevars, f.__closure__ or ()))
        fn = cells["fn"].cell_contents
        name += ":" + getattr(fn, "__name__", repr(fn))
    except Exception:
        pass
    return name


# ------------------------------------------------------------------ valid request templates

def templates():
    """valid frames (NPCI + APDU octets) of every service the device supports, plus
    services it does not support, produced by the library's own encoders"""
    from bacpypes.pdu import Address, PDU
    from bacpypes.npdu import NPDU
    from bacpypes.apdu import (ReadPropertyRequest, WritePropertyRequest, ReadPropertyMultipleRequest,
                               ReadAccessSpecification, PropertyReference, WhoIsRequest,
                               DeviceCommunicationControlRequest, AtomicReadFileRequest,
                               AtomicReadFileRequestAccessMethodChoice,
                               AtomicReadFileRequestAccessMethodChoiceStreamAccess,
                               AtomicWriteFileRequest, AtomicWriteFileRequestAccessMethodChoice,
                               AtomicWriteFileRequestAccessMethodChoiceStreamAccess,
                               ConfirmedPrivateTransferRequest, SubscribeCOVRequest,
                               ReinitializeDeviceRequest, WhoHasRequest, WhoHasObject,
                               ConfirmedRequestPDU, UnconfirmedRequestPDU, CreateObjectRequest,
                               ReadRangeRequest, DeleteObjectRequest, ConfirmedTextMessageRequest,
                               ConfirmedTextMessageRequestMessageClass, LifeSafetyOperationRequest)
    from bacpypes.primitivedata import Real, Unsigned, CharacterString, OctetString
    from bacpypes.constructeddata import Any

    from bacpypes.apdu import APDU

    def wire(x):
        a = APDU()
        x.encode(a)            # copies the APCI fields + service data
        n = NPDU()
        a.encode(n)            # writes the APCI octets
        p = PDU()
        n.encode(p)            # writes the NPCI octets
        return bytes(p.pduData)

    def frame(apdu):
        x = UnconfirmedRequestPDU()
        apdu.encode(x)
        return wire(x)

    def cr(apdu, invoke):
        # confirmed requests need the header fields SMAP would fill in
        apdu.apduInvokeID = invoke
        x = ConfirmedRequestPDU()
        apdu.encode(x)
        x.apduSA = 1
        x.apduMaxSegs = 0      # code: unspecified
        x.apduMaxResp = 5      # code: 1476
        x.apduInvokeID = invoke
        return wire(x)

    t = {}
    t["rp"] = cr(ReadPropertyRequest(objectIdentifier=("analogValue", 1), propertyIdentifier="presentValue"), 1)
    t["rp-index"] = cr(ReadPropertyRequest(objectIdentifier=("device", DEVICE), propertyIdentifier="objectList",
                                           propertyArrayIndex=1), 2)
    t["rp-unknown-object"] = cr(ReadPropertyRequest(objectIdentifier=("analogValue", 99), propertyIdentifier="presentValue"), 3)
    wp = WritePropertyRequest(objectIdentifier=("analogValue", 1), propertyIdentifier="presentValue")
    wp.propertyValue = Any(); wp.propertyValue.cast_in(Real(3.5)); wp.priority = 8
    t["wp"] = cr(wp, 4)
    wp2 = WritePropertyRequest(objectIdentifier=("analogValue", 1), propertyIdentifier="description")
    wp2.propertyValue = Any(); wp2.propertyValue.cast_in(CharacterString("hello"))
    t["wp-string"] = cr(wp2, 5)
    rpm = ReadPropertyMultipleRequest(listOfReadAccessSpecs=[
        ReadAccessSpecification(objectIdentifier=("analogValue", 1), listOfPropertyReferences=[
            PropertyReference(propertyIdentifier="presentValue"),
            PropertyReference(propertyIdentifier="objectName")]),
        ReadAccessSpecification(objectIdentifier=("binaryValue", 1), listOfPropertyReferences=[
            PropertyReference(propertyIdentifier="all")])])
    t["rpm"] = cr(rpm, 6)
    t["dcc"] = cr(DeviceCommunicationControlRequest(timeDuration=1, enableDisable="enable"), 7)
    arf = AtomicReadFileRequest(fileIdentifier=("file", 1), accessMethod=AtomicReadFileRequestAccessMethodChoice(
        streamAccess=AtomicReadFileRequestAccessMethodChoiceStreamAccess(fileStartPosition=0, requestedOctetCount=4)))
    t["arf"] = cr(arf, 8)
    awf = AtomicWriteFileRequest(fileIdentifier=("file", 1), accessMethod=AtomicWriteFileRequestAccessMethodChoice(
        streamAccess=AtomicWriteFileRequestAccessMethodChoiceStreamAccess(fileStartPosition=0, fileData=OctetString(b"abcd"))))
    t["awf"] = cr(awf, 9)
    # services the device does not implement: must be rejected, not ignored
    t["cpt-unsupported"] = cr(ConfirmedPrivateTransferRequest(vendorID=999, serviceNumber=1), 10)
    t["cov-unsupported"] = cr(SubscribeCOVRequest(subscriberProcessIdentifier=1,
                                                  monitoredObjectIdentifier=("analogValue", 1),
                                                  issueConfirmedNotifications=False, lifetime=30), 11)
    t["reinit-unsupported"] = cr(ReinitializeDeviceRequest(reinitializedStateOfDevice="warmstart"), 12)
    t["delete-unsupported"] = cr(DeleteObjectRequest(objectIdentifier=("analogValue", 1)), 13)
    # requests whose CHARACTER STRING parameters are decoded by the service decoder itself (not inside an Any)
    t["dcc-password"] = cr(DeviceCommunicationControlRequest(timeDuration=1, enableDisable="enable",
                                                            password=CharacterString("secret")), 14)
    t["reinit-password"] = cr(ReinitializeDeviceRequest(reinitializedStateOfDevice="warmstart",
                                                       password=CharacterString("pw")), 15)
    t["text-message"] = cr(ConfirmedTextMessageRequest(
        textMessageSourceDevice=("device", 7),
        messageClass=ConfirmedTextMessageRequestMessageClass(character=CharacterString("ops")),
        messagePriority="normal", message=CharacterString("hello there")), 16)
    t["lso"] = cr(LifeSafetyOperationRequest(requestingProcessIdentifier=1, requestingSource=CharacterString("panel"),
                                             request="silence"), 17)
    # an answer of many segments under a small announced maximum
    t["rpm-big"] = cr(ReadPropertyMultipleRequest(listOfReadAccessSpecs=[
        ReadAccessSpecification(objectIdentifier=o, listOfPropertyReferences=[PropertyReference(propertyIdentifier="all")])
        for o in (("device", DEVICE), ("analogValue", 1), ("binaryValue", 1), ("multiStateValue", 1))]), 18)
    # unconfirmed
    t["whois"] = frame(WhoIsRequest())
    t["whois-limits"] = frame(WhoIsRequest(deviceInstanceRangeLowLimit=0, deviceInstanceRangeHighLimit=100))
    return t


# ------------------------------------------------------------------ independent classification

def classify(frame):
    """what the property says about this frame, decided WITHOUT bacpypes:
       'confirmed' (intact fixed header of an unsegmented confirmed request addressed to
       the device's application) -> exactly one reply with the invoke id is owed;
       'segment' (first/any segment of a segmented confirmed request);
       'other' -> no demand beyond health."""
    b = frame
    if len(b) < 2 or b[0] != 1:
        return ("other", None)
    ctl = b[1]
    if ctl & 0x50:                       # reserved bits set: bacpypes ignores them, no demand either way
        pass
    i = 2
    if ctl & 0x20:
        if len(b) < i + 3:
            return ("other", None)
        dnet = (b[i] << 8) | b[i + 1]
        dlen = b[i + 2]
        i += 3
        if len(b) < i + dlen:
            return ("other", None)
        i += dlen
        # routed somewhere else / broadcast: not "addressed to the device" in the sense of the property
        return ("other", None)
    if ctl & 0x08:
        if len(b) < i + 3:
            return ("other", None)
        snet = (b[i] << 8) | b[i + 1]
        slen = b[i + 2]
        i += 3
        if slen == 0 or snet == 0xFFFF or len(b) < i + slen:
            return ("other", None)
        i += slen
        return ("other", None)          # reply would need a router; out of this harness' LAN
    if ctl & 0x80:
        return ("other", None)          # network-layer message
    a = b[i:]
    if len(a) < 1:
        return ("other", None)
    if a[0] >> 4 != 0:
        return ("other", None)
    seg = bool(a[0] & 0x08)
    if seg:
        if len(a) < 6:
            return ("other", None)
        return ("segment", a[2])
    if len(a) < 4:
        return ("other", None)
    return ("confirmed", a[2])


TEMPLATE_STRINGS = {"dcc-password": [b"secret"], "reinit-password": [b"pw"], "text-message": [b"ops", b"hello there"],
                    "lso": [b"panel"], "wp-string": [b"hello"]}

STRING_CONTENTS = [b"", b"a", b"ab", b"abc", b"abcd", b"abcde", b"abcdefgh", b"\xd8\x00", b"\xdc\x00\xd8\x00",
                   b"\x00\x41\xd8\x00", b"\x00\x11\x00\x00", b"\xff\xff\xff\xff", b"\x00\x00\xd8\x00",
                   b"\xe2\x82", b"\xc3", b"\xff", b"\xff\xff\xff", b"\x00", b"\xf8\x88\x80\x80\x80", b"\xed\xa0\x80"]
CHARSETS = [0, 1, 2, 3, 4, 5, 255]


def string_mutations(name, frame):
    """for every character-string tag of a template: every charset octet x ill-formed / odd / even content.
    The tag is found by its known content; its header (class, number) is kept, the length rewritten."""
    out = []
    for text in TEMPLATE_STRINGS.get(name, []):
        data = b"\x00" + text
        at = frame.find(data)
        if at < 0:
            continue
        # tag header in front of the data: one octet (length < 5) or octet + length octet
        if len(data) < 5:
            h0 = at - 1
        else:
            h0 = at - 2
        first = frame[h0]
        for cs in CHARSETS:
            for content in STRING_CONTENTS:
                d = bytes([cs]) + content
                hdr = bytes([(first & 0xF8) | len(d)]) if len(d) < 5 else bytes([(first & 0xF8) | 5, len(d)])
                out.append(frame[:h0] + hdr + d + frame[at + len(data):])
    return out


def routed(frame, snet, sadr, dnet_bits=b""):
    """the frame as a router would deliver it: SNET/SADR added to the (plain) NPCI"""
    return bytes([frame[0], frame[1] | 0x08]) + bytes([snet >> 8, snet & 255, len(sadr)]) + sadr + frame[2:]


def reply_route(raw):
    """(dnet, dadr) of a frame carrying a DNET, or None"""
    if len(raw) < 5 or raw[0] != 1 or not raw[1] & 0x20:
        return None
    dlen = raw[4]
    return ((raw[2] << 8) | raw[3], bytes(raw[5:5 + dlen]))


REPLY_TYPES = {2: "simple-ack", 3: "complex-ack", 5: "error", 6: "reject", 7: "abort"}


def judge(frame, out, residue):
    """-> list of (kind, what) property failures for one injected frame"""
    fails = []
    kind, invoke = classify(frame)
    if not out["terminated"]:
        fails.append(("nontermination", "device still busy after the loop limit"))
        return fails
    replies = [h for (h, _raw) in out["replies"] if h and h.get("type") in REPLY_TYPES]
    if kind == "confirmed":
        mine = [h for h in replies if h.get("invoke") == invoke]
        unseg = [h for h in mine if not h.get("seg")]
        segs = [h for h in mine if h.get("seg")]
        if not mine:
            fails.append(("silence", "confirmed request (invoke %d) got no reply" % invoke))
        elif len(unseg) > 1 or (unseg and segs):
            fails.append(("many-replies", "confirmed request (invoke %d) got %d replies: %s" % (
                invoke, len(mine), [REPLY_TYPES[h["type"]] for h in mine])))
        others = [h for h in replies if h.get("invoke") != invoke]
        if others:
            fails.append(("foreign-reply", "reply with another invoke id: %r" % ([h.get("invoke") for h in others],)))
    if residue["client"] or residue["server"]:
        fails.append(("residue-transaction", "leftover transactions %r" % (residue,)))
    if residue["ssm_timers"]:
        fails.append(("residue-timer", "leftover transaction timers %r" % (residue,)))
    if out.get("unexpected_tasks"):
        fails.append(("residue-timer", "still scheduled after every transaction must be over: %r" % (out["unexpected_tasks"],)))
    return fails
