"""
C15 — property reads and writes over the wire are consistent, typed, all-or-nothing.

End-to-end: a client Application stack and a device Application stack (the
repository's own Application / ASAP / SMAP / NSAP / vlan.Node, wired as the
repository's tests wire them) exchange REAL ReadProperty / WriteProperty /
ReadPropertyMultiple APDUs over a vlan.Network under virtual time (harness/vt.py).

The device holds, per scenario, a LocalDeviceObject and a rotating selection of
  * the 63 registered standard classes ("std"),
  * subclasses registered with vendor_id=999 that re-declare selected properties
    with WritableProperty ("w": one or two properties of every datatype kind of
    the type, so accepted writes of atomic / enumerated / array / list /
    constructed values exist),
  * the commandable classes of local/object.py with atomic present values ("cmd"),
  * a WriteableObjectNameMixIn object ("nw").

Streams (model = lean/Drv/C15.lean over Model.Object + Gen.Objects):
  e2e   : random request sequences; after every write the full device state is
          compared as well (model `snap` vs a direct dump of obj._values)
  corpus: minimised past failures (corpus/C15/*.json), run first
Implementation-side oracle (independent of the model, evaluated on the real
replies and on direct dumps of the device):
  * read-after-acked-write returns the written octets (whole / element / length)
  * a refused write leaves the full property dump of the device unchanged
  * a refusal is the matching one: unknown object / unknown property /
    not-an-array / invalid-array-index / write-access-denied decided from the
    device's own tables; a wrong-typed value is never acknowledged and never
    answered device/operationalProblem
  * array index classes: 0 -> length, 1..n -> element, else invalid-array-index
  * every ReadPropertyMultiple element equals the ReadProperty answer for the
    same reference (value octets or class/code); selectors list exactly the
    properties ReadProperty finds
"""
import importlib.util
import json
import os
import struct

from . import core

LEAN_TARGETS = ["BacVerif.Props.C15", "drv_c15"]
LEANCHECKER = ["BacVerif.Props.C15"]
LEVEL = "proof"
RULE = ("end-to-end request sequences (ReadProperty 35% / WriteProperty 45% / ReadPropertyMultiple 20%) against "
        "devices populated from all 63 registered types (std + writable vendor subclasses), the atomic commandable "
        "classes, a name-writable object and the local device object; values generated from each property's "
        "datatype (atomic, enumerated, arrays fixed/variable, lists, constructed), wrong-typed values (other "
        "datatype, Null, wrong shape), array indexes {none,0,1,n,n+1,big}, priorities {none,1..16,0,17,-1}, unknown "
        "objects/properties, selectors all/required/optional. distinct = (operation, datatype kind, index class, "
        "value class, priority class, reply kind/code) signatures; trivial = none")
TRUSTED = ["lean/BacVerif/Model/Object.lean is a hand transcription of service/object.py, Property.ReadProperty/"
           "WriteProperty, ArrayOf.__getitem__/__setitem__/fix_length, CurrentPropertyList, WriteableObjectName, "
           "Commandable.WriteProperty; tied by the e2e stream (replies and full state after every write)",
           "translator/c15.py (live registry -> Gen/Objects.lean) and its describe_class used for the harness's own classes",
           "decoding of CONSTRUCTED values (Sequence/Choice: Any.cast_out) is C03's codec; its outcome (ok / reject "
           "reason / other exception) is computed client-side with the library's own decoder and handed to the model",
           "the client half of the exchange (request encoding, IOCB, segmentation) and harness/vt.py"]
ASSUMPTIONS = ["tag contents of written values are well-formed (they come from the library's encoders)",
               "array properties hold ArrayOf instances, list properties ListOf instances or plain lists (as the "
               "library's own code stores them); Application.objectName/objectIdentifier are in sync with the objects",
               "not exercised (owned by C17): direct non-Null writes of priorityArray[i], out-of-table enumerated "
               "present values and -0.0 on commandable objects, minimum on/off times; DateTime commandables",
               "vendor-specific property identifiers and object types are out of scope (partial)"]

VERIF = core.VERIF

# ------------------------------------------------------------------ environment


class Env:
    pass


_ENV = None


def translator():
    spec = importlib.util.spec_from_file_location("verif_translator_c15", os.path.join(VERIF, "translator", "c15.py"))
    mod = importlib.util.module_from_spec(spec)
    spec.loader.exec_module(mod)
    return mod


def GENERATED(ctx):
    translator().generate()


def env():
    """bind the library, install virtual time, walk the registry — once per process"""
    global _ENV
    if _ENV is not None:
        return _ENV
    core.bind_repo()
    from .vt import VT
    E = Env()
    E.vt = VT.install()
    import bacpypes.object as bo
    import bacpypes.local.object as lo
    from bacpypes.app import ApplicationIOController
    from bacpypes.appservice import StateMachineAccessPoint, ApplicationServiceAccessPoint
    from bacpypes.netservice import NetworkServiceAccessPoint, NetworkServiceElement
    from bacpypes.comm import bind
    from bacpypes.vlan import Network, Node
    from bacpypes.pdu import Address, LocalBroadcast
    from bacpypes.local.device import LocalDeviceObject
    from bacpypes.service.device import WhoIsIAmServices
    from bacpypes.service.object import ReadWritePropertyServices, ReadWritePropertyMultipleServices
    from bacpypes.basetypes import PropertyIdentifier, ErrorClass, ErrorCode
    from bacpypes.primitivedata import ObjectType
    from bacpypes.apdu import RejectReason

    class App(ApplicationIOController, WhoIsIAmServices, ReadWritePropertyServices,
              ReadWritePropertyMultipleServices):
        def __init__(self, dev, vlan):
            self.address = Address(dev.objectIdentifier[1])
            ApplicationIOController.__init__(self, dev)
            self.asap = ApplicationServiceAccessPoint()
            self.smap = StateMachineAccessPoint(dev)
            self.smap.deviceInfoCache = self.deviceInfoCache
            self.nsap = NetworkServiceAccessPoint()
            self.nse = NetworkServiceElement()
            bind(self.nse, self.nsap)
            bind(self, self.asap, self.smap, self.nsap)
            self.node = Node(self.address, vlan)
            self.nsap.bind(self.node)

    from bacpypes.service.cov import ChangeOfValueServices

    class AppCov(App, ChangeOfValueServices):
        """the same device with the COV services: they add the computed
        activeCovSubscriptions property to the device object"""

    E.AppCov = AppCov
    E.App, E.Network, E.Address, E.LocalBroadcast = App, Network, Address, LocalBroadcast
    E.LocalDeviceObject = LocalDeviceObject
    E.bo, E.lo = bo, lo
    E.tr = translator()
    E.sch, rows = E.tr.tables()
    E.rows = {r[0]: r for r in rows}                      # type name -> (name, num, class name, descs)
    E.otnum = dict(ObjectType.enumerations)
    E.otname = {v: k for k, v in ObjectType.enumerations.items()}
    E.pidnum = dict(PropertyIdentifier.enumerations)
    E.pidname = {v: k for k, v in PropertyIdentifier.enumerations.items()}
    E.errcls, E.errcode, E.rejreason = ErrorClass.enumerations, ErrorCode.enumerations, RejectReason.enumerations
    E.classes = {}
    E.cmd_names = cmd_class_names(E)
    E.pool = datatype_pool(E)
    _ENV = E
    return E


def cmd_props(obj_or_cls):
    """(commanded property, priority array, relinquish default) names of a class built with the
    Commandable() factory — read from the mix-in's own property list —, or None"""
    cls = obj_or_cls if isinstance(obj_or_cls, type) else type(obj_or_cls)
    if getattr(cls, "_pv_choice", None) is None:
        return None
    mix = [c for c in cls.__mro__ if "_pv_choice" in vars(c)]
    if not mix:
        return None
    names = [p.identifier for p in mix[0].properties]
    return tuple(names[:3])


# Commandable() on a custom property name: (registered type, datatype, commanded property) —
# with an unrelated presentValue on the same object (first three) and without one
CMDX = [("loop", "Real", "setpoint"), ("accumulator", "Unsigned", "maxPresValue"),
        ("binaryInput", "Polarity", "polarity"), ("notificationClass", "Unsigned", "notificationClass"),
        ("program", "CharacterString", "descriptionOfHalt"), ("file", "Unsigned", "fileSize")]


def cmd_class_names(E):
    """the commandable classes of local/object.py whose present value is atomic
    and that can be constructed on the tree under test"""
    import inspect
    from bacpypes.primitivedata import Atomic
    out = []
    for name, cls in sorted(vars(E.lo).items()):
        if not (inspect.isclass(cls) and issubclass(cls, E.bo.Object)) or cls.__module__ != E.lo.__name__:
            continue
        if getattr(cls, "_pv_choice", None) is None:
            continue
        mix = [c for c in cls.__mro__ if "_pv_choice" in vars(c)]
        if not mix:
            continue
        dt = {p.identifier: p for p in mix[0].properties}["presentValue"].datatype
        if issubclass(dt, Atomic):
            out.append(name)
    return out


def datatype_pool(E):
    """every datatype class that occurs in the registry (source of wrong-typed values)"""
    seen, out = set(), []
    for (ot, vid), cls in sorted(E.bo.registered_object_types.items(), key=lambda kv: str(kv[0])):
        if vid != 0:
            continue
        for p in cls._properties.values():
            if p.datatype not in seen:
                seen.add(p.datatype)
                out.append(p.datatype)
    return out


# ------------------------------------------------------------------ tags / encodings

def jt(taglist):
    return [[t.tagClass, t.tagNumber, t.tagLVT, bytes(t.tagData).hex()] for t in taglist]


def any_of_tags(tags):
    from bacpypes.constructeddata import Any
    from bacpypes.primitivedata import Tag, TagList
    a = Any()
    a.tagList = TagList([Tag(t[0], t[1], t[2], bytes.fromhex(t[3])) for t in tags])
    return a


def enc_tag(t):
    """the standard's encoding of one tag (clause 20.2.1), written here independently of the
    library's Tag.encode: [class, number, LVT, data hex] -> octets"""
    cls, num, lvt, data = t[0], t[1], t[2], bytes.fromhex(t[3])
    first = (num << 4) if num < 15 else 0xF0
    if cls == 1:
        first |= 0x08
    out = bytearray()
    if cls == 2:
        first |= 0x0E
    elif cls == 3:
        first |= 0x0F
    else:
        first |= lvt if lvt < 5 else 5
    out.append(first)
    if num >= 15:
        out.append(num)
    if cls in (0, 1) and lvt >= 5:
        if lvt <= 253:
            out.append(lvt)
        elif lvt <= 65535:
            out += bytes([254, lvt >> 8, lvt & 255])
        else:
            out += bytes([255]) + lvt.to_bytes(4, "big")
    return bytes(out) + data


def hex_of_tags(tags):
    """octets of a tag list — by the harness's own encoder, so that every comparison of a reply
    with what was written / stored is a comparison of DECODED tags (class, number, content)"""
    return b"".join(enc_tag(t) for t in tags).hex()


def hex_of_any(a):
    return hex_of_tags(jt(a.tagList))


def elem_item(E, sub, v):
    """one element (or scalar) as the library would encode it -> {"enc": tags} | {"unenc": refusal}"""
    from bacpypes.constructeddata import Any, AnyAtomic
    from bacpypes.primitivedata import Atomic
    # plain (immutable) values of atomic classes are encoded once per process
    key = None
    if issubclass(sub, Atomic) and not issubclass(sub, AnyAtomic) and not isinstance(v, Atomic):
        try:
            key = (sub, type(v), tuple(v) if isinstance(v, list) else repr(v) if isinstance(v, float) else v)
            hit = _ENC_CACHE.get(key)
            if hit is not None:
                return hit
        except TypeError:
            key = None
    try:
        a = Any()
        a.cast_in(sub(v) if issubclass(sub, Atomic) else v)
        out = {"enc": jt(a.tagList)}
    except Exception as e:
        out = {"unenc": E.tr.refusal_of_exception(e)}
    if key is not None and len(_ENC_CACHE) < 200000:
        _ENC_CACHE[key] = out
    return out


_ENC_CACHE = {}


def pval_of(E, dt, value):
    """model-side rendering (PVal JSON) of a stored Python value of datatype dt"""
    from bacpypes.constructeddata import Array, List
    if value is None:
        return None
    if issubclass(dt, Array):
        if isinstance(value, Array) and isinstance(value.value, list) and value.value and value.value[0] == len(value.value) - 1:
            return {"arr": [elem_item(E, dt.subtype, v) for v in value.value[1:]]}
        return {"py": repr(value)}
    if issubclass(dt, List):
        if isinstance(value, List):
            return {"lst": [elem_item(E, dt.subtype, v) for v in value.value]}
        if isinstance(value, list):
            return {"lst": [elem_item(E, dt.subtype, v) for v in value]}
        return {"py": repr(value)}
    return {"one": elem_item(E, dt, value)}


def digest_item(it):
    return hex_of_tags(it["enc"]) if "enc" in it else "!"


def digest_pval(pv):
    """the form the model's `snap` prints"""
    if pv is None:
        return None
    if "one" in pv:
        return ["one", digest_item(pv["one"])]
    if "arr" in pv:
        return ["arr", [digest_item(i) for i in pv["arr"]]]
    if "lst" in pv:
        return ["lst", [digest_item(i) for i in pv["lst"]]]
    return ["py", pv["py"]]


# ------------------------------------------------------------------ value generation (from the datatype)

ATOM_CLASSES = None


def atom_classes():
    global ATOM_CLASSES
    if ATOM_CLASSES is None:
        from bacpypes import primitivedata as pd
        ATOM_CLASSES = [pd.Boolean, pd.Unsigned, pd.Integer, pd.Real, pd.Double, pd.OctetString,
                        pd.CharacterString, pd.BitString, pd.Enumerated, pd.Date, pd.Time, pd.ObjectIdentifier]
    return ATOM_CLASSES


CHARSET = [False]      # True: character strings may travel in character sets 3 / 4 / 5
CODECS = {0: "utf_8", 3: "utf_32_be", 4: "utf_16_be", 5: "latin_1"}


def charset_string(text, cs):
    """a CharacterString whose tag content is hand-made: character-set octet `cs` + the text in
    that character set (ISO 10646 UCS-4 = 3 and UCS-2 = 4 big-endian, ISO 8859-1 = 5); falls back
    to UCS-2 when the text does not exist in the set.  (Sets 1 and 2 — DBCS, JIS — are not
    decoded by the library: it stores a placeholder text; not exercised.)"""
    from bacpypes.primitivedata import CharacterString
    try:
        raw = text.encode(CODECS[cs])
    except UnicodeEncodeError:
        cs, raw = 4, text.encode(CODECS[4])
    v = CharacterString(text)
    v.strEncoding, v.strValue = cs, raw
    return v


def own_text(data):
    """the text a character-string tag content denotes, decoded here (not by the library)"""
    if not data or data[0] not in CODECS:
        return None
    try:
        return data[1:].decode(CODECS[data[0]])
    except UnicodeDecodeError:
        return None


def same_modulo_charset(t1, t2):
    """two tag lists that differ at most in the character set of string contents: same tags, and
    where the content differs both denote the same text (code points)"""
    if len(t1) != len(t2):
        return False
    for a, b in zip(t1, t2):
        if a[0] != b[0] or a[1] != b[1]:
            return False
        if a[3] != b[3]:
            ta, tb = own_text(bytes.fromhex(a[3])), own_text(bytes.fromhex(b[3]))
            if ta is None or ta != tb:
                return False
    return True


def gen_tags2(E, klass, rng):
    """(tags as sent, canonical tags or None): the same random value rendered twice — once with
    character strings in character sets 0/3/4/5, once all UTF-8 (what the device stores and
    answers); None when the two renderings are identical"""
    state = rng.getstate()
    CHARSET[0] = True
    try:
        sent = gen_tags(E, klass, rng)
    finally:
        CHARSET[0] = False
    after = rng.getstate()
    rng.setstate(state)
    canon = gen_tags(E, klass, rng)
    rng.setstate(after)
    if sent is None or canon is None or not same_modulo_charset(sent, canon):
        return canon, None
    return sent, (canon if canon != sent else None)


def string_like(klass):
    from bacpypes import primitivedata as pd
    return isinstance(klass, type) and issubclass(klass, (pd.OctetString, pd.CharacterString, pd.BitString))


def boundary_value(klass, rng, big=False):
    """a string-like value whose tag content sits at a length-escape boundary: content of
    253 / 254 / 255 / 256 / 257 octets (one-octet length up to 253, then the 254 escape), or — `big`
    — 65 535 / 65 536 octets (the 255 escape)"""
    from bacpypes import primitivedata as pd
    n = rng.choice([65535, 65536]) if big else rng.choice([253, 254, 254, 255, 256, 257])
    if issubclass(klass, pd.OctetString):
        return bytes((i * 7 + n) & 255 for i in range(n))
    if issubclass(klass, pd.CharacterString):
        # content = character-set octet + UTF-8 octets
        body = "".join(chr(97 + (i % 26)) for i in range(n - 1))
        if not big and rng.random() < 0.3:
            body = body[:-2] + "é"              # two UTF-8 octets: same octet count
        return body
    # bit string: content = unused-bits octet + ceil(bits / 8) octets
    bits = (n - 1) * 8 - rng.choice([0, 1, 7])
    return [(i * 5 + n) % 3 & 1 for i in range(bits)]


def gen_atomic(klass, rng):
    """a native Python value valid for the atomic class"""
    from bacpypes import primitivedata as pd
    if issubclass(klass, pd.Null):
        return ()
    if issubclass(klass, pd.Boolean):
        return rng.random() < 0.5
    if issubclass(klass, pd.Unsigned):
        hi = klass._high_limit if klass._high_limit is not None else 0xFFFFFFFF
        lo = klass._low_limit
        c = [lo, hi, lo + 1, max(lo, hi - 1), 255, 256, 65535, 65536, rng.randrange(lo, hi + 1), rng.randrange(lo, min(hi, 300) + 1)]
        return rng.choice([x for x in c if lo <= x <= hi])
    if issubclass(klass, pd.Integer):
        return rng.choice([0, 1, -1, 127, 128, -128, -129, 32767, -32768, 2 ** 31 - 1, -2 ** 31, rng.randrange(-70000, 70000)])
    if issubclass(klass, pd.Real):
        while True:
            bits = rng.choice([0, 0x3F800000, 0x7F7FFFFF, 0x00000001, 0x7F800000, 0xFF800000, rng.getrandbits(32)])
            v = struct.unpack(">f", struct.pack(">L", bits))[0]
            if v == v and not (v == 0 and bits != 0):     # no NaN, no -0.0
                return v
    if issubclass(klass, pd.Double):
        while True:
            bits = rng.choice([0, 0x3FF0000000000000, 0x7FEFFFFFFFFFFFFF, 1, rng.getrandbits(64)])
            v = struct.unpack(">d", struct.pack(">Q", bits))[0]
            if v == v and not (v == 0 and bits != 0):
                return v
    if issubclass(klass, (pd.OctetString, pd.CharacterString, pd.BitString)) and rng.random() < 0.05:
        return boundary_value(klass, rng)
    if issubclass(klass, pd.OctetString):
        return bytes(rng.getrandbits(8) for _ in range(rng.choice([0, 1, 2, 5, 9])))
    if issubclass(klass, pd.CharacterString):
        text = rng.choice(["", "a", "name-%d" % rng.randrange(1000), "éè 中", "Zone é", "x" * rng.choice([4, 5, 300])])
        cs = rng.choice([0, 0, 0, 3, 4, 5])          # always drawn: both renderings consume the same choices
        if CHARSET[0] and cs != 0:
            return charset_string(text, cs)
        return text
    if issubclass(klass, pd.BitString):
        n = klass.bitLen if klass.bitLen and rng.random() < 0.8 else rng.choice([0, 1, 7, 8, 9, 17])
        return [rng.getrandbits(1) for _ in range(n)]
    if issubclass(klass, pd.ObjectType):
        return rng.choice(sorted(klass.enumerations)) if rng.random() < 0.9 else rng.choice([200, 1023])
    if issubclass(klass, pd.Enumerated):
        names = sorted(klass.enumerations)
        if names and rng.random() < 0.85:
            return rng.choice(names)
        return rng.choice([0, 1, 255, 256, 70000])
    if issubclass(klass, pd.Date):
        return rng.choice([(255, 255, 255, 255), (rng.randrange(0, 255), rng.randrange(1, 13), rng.randrange(1, 29), rng.randrange(1, 8)),
                           (124, 2, 29, 4), (255, 13, 32, 255)])
    if issubclass(klass, pd.Time):
        return rng.choice([(255, 255, 255, 255), (rng.randrange(24), rng.randrange(60), rng.randrange(60), rng.randrange(100)), (23, 59, 59, 99)])
    if issubclass(klass, pd.ObjectIdentifier):
        return (rng.choice(sorted(pd.ObjectType.enumerations)), rng.choice([0, 1, 4194302, 4194303, rng.randrange(4194304)]))
    raise ValueError("no generator for %r" % klass)


def gen_field(klass, rng, depth=0):
    """a value as a Sequence attribute / list element of class `klass` holds it"""
    from bacpypes import primitivedata as pd
    from bacpypes import constructeddata as cd
    if issubclass(klass, cd.AnyAtomic) or klass is cd.Any or issubclass(klass, cd.Any):
        # opaque to the device: an Any keeps its tags, an AnyAtomic its decoded Atomic (which
        # re-encodes with the character set it arrived in) — no character-set variants inside
        k = rng.choice(atom_classes())
        keep, CHARSET[0] = CHARSET[0], False
        try:
            v = k(gen_atomic(k, rng))
        finally:
            CHARSET[0] = keep
        return v if issubclass(klass, cd.AnyAtomic) else cd.Any(v)
    if issubclass(klass, pd.Atomic):
        return gen_atomic(klass, rng)
    if issubclass(klass, (cd.Array, cd.List)) or klass in cd._sequence_of_classes:
        fixed = getattr(klass, "fixed_length", None)
        n = fixed if fixed is not None else (0 if depth > 3 else rng.choice([0, 1, 1, 2, 3]))
        return [gen_field(klass.subtype, rng, depth + 1) for _ in range(n)]
    if issubclass(klass, cd.Choice):
        els = klass.choiceElements
        if depth > 3:
            simple = [e for e in els if issubclass(e.klass, pd.Atomic)]
            els = simple or els
        e = rng.choice(els)
        return klass(**{e.name: gen_field(e.klass, rng, depth + 1)})
    if issubclass(klass, cd.Sequence):
        kw = {}
        for e in klass.sequenceElements:
            if e.optional and (depth > 3 or rng.random() < 0.5):
                continue
            kw[e.name] = gen_field(e.klass, rng, depth + 1)
        return klass(**kw)
    raise ValueError("no generator for %r" % klass)


def gen_tags(E, klass, rng, tries=6):
    """tags of a random value of datatype `klass` (the content of the request's Any), or None"""
    from bacpypes import primitivedata as pd
    from bacpypes import constructeddata as cd
    for _ in range(tries):
        try:
            v = gen_field(klass, rng)
            a = cd.Any()
            if issubclass(klass, cd.AnyAtomic):
                a.cast_in(v)
            elif issubclass(klass, pd.Atomic):
                a.cast_in(klass(v))
            elif issubclass(klass, (cd.Array, cd.List)):
                a.cast_in(klass(v))
            else:
                a.cast_in(v)
            return jt(a.tagList)
        except Exception:
            continue
    return None


# ------------------------------------------------------------------ fixture (the device under test)

PROTECTED = ("objectIdentifier", "objectName", "objectType", "propertyList")
VOLATILE = ("localTime", "localDate")


def kind_key(d):
    dt = d["dt"]
    e = dt["e"]
    ek = "any" if e["k"] == "any" else ("a%d" % e["tag"] + ("r" if e.get("hi") is not None else "")) if e["k"] == "atomic" else "cons"
    if dt["k"] != "scalar":
        ek = "cons" if e["k"] == "cons" else "atomic-r" if e.get("hi") is not None else "atomic"
    return (dt["k"], ek, dt.get("fixed") is not None)


def writable_selection(E, otname, per_kind=2):
    """the properties the writable vendor subclass re-declares: the first `per_kind`
    properties of every datatype kind, in table order"""
    seen, out = {}, []
    for d in E.rows[otname][3]:
        if d["name"] in PROTECTED or d["custom"] != "std":
            continue
        k = kind_key(d)
        if seen.get(k, 0) < per_kind:
            seen[k] = seen.get(k, 0) + 1
            out.append(d["name"])
    return out


def get_class(E, kind, otname, own=()):
    """the class of a fixture object (created and registered once per process)"""
    key = (kind, otname, tuple(own))
    if key in E.classes:
        return E.classes[key]
    bo, lo = E.bo, E.lo
    if kind == "std":
        cls = bo.registered_object_types[(otname, 0)]
    elif kind == "w":
        base = bo.registered_object_types[(otname, 0)]
        props = [bo.WritableProperty(n, base._properties[n].datatype) for n in own]
        cls = type(base.__name__ + "W", (base,), {"properties": props})
        bo.register_object_type(cls, vendor_id=999)
    elif kind == "nw":
        base = bo.registered_object_types[(otname, 0)]
        cls = type(base.__name__ + "NW", (lo.WriteableObjectNameMixIn, lo.CurrentPropertyListMixIn, base),
                   {"properties": []})
        bo.register_object_type(cls, vendor_id=999)
    elif kind == "cmd":
        cls = getattr(lo, otname)          # here `otname` is the class name
        bo.register_object_type(cls, vendor_id=999)
    elif kind == "cmdx":
        # the documented use of the factory with a custom name: Commandable(datatype, 'setpoint')
        import bacpypes.primitivedata as pd
        import bacpypes.basetypes as bt
        base = bo.registered_object_types[(otname, 0)]
        dtname, pvname = own
        dt = getattr(pd, dtname, None) or getattr(bt, dtname)
        cls = type(base.__name__ + "Cmdx", (lo.Commandable(dt, pvname), base), {})
        bo.register_object_type(cls, vendor_id=999)
    else:
        raise core.Infra("bad class kind " + kind)
    E.classes[key] = cls
    return cls


def py_value(E, dt, tags, plain=False):
    """rebuild the stored Python value from its tags (what a constructor keyword holds)"""
    from bacpypes.constructeddata import Array, List
    v = any_of_tags(tags).cast_out(dt)
    if issubclass(dt, Array):
        return v if isinstance(v, Array) else dt(v)     # subclasses of an ArrayOf class cast out as instances
    if issubclass(dt, List):
        return v if plain or isinstance(v, List) else dt(v)
    return v


def gen_fixture(E, rng, types, n_cmd=3):
    """explicit, replayable description of the device: objects, their classes, initial values (as tags)"""
    objs = []
    inst = 1
    for otname in types:
        if otname == "device":
            continue
        kind = "w" if rng.random() < 0.75 else "std"
        own = writable_selection(E, otname, per_kind=rng.choice([1, 2, 2])) if kind == "w" else []
        cls = get_class(E, kind, otname, own)
        init = {}
        plain = []
        for name, p in cls._properties.items():
            if name in PROTECTED or type(p).__name__ not in ("OptionalProperty", "ReadableProperty", "WritableProperty"):
                continue
            want = 0.85 if name in own or p.mutable else 0.3
            if rng.random() < want:
                tags = gen_tags(E, p.datatype, rng)
                if tags is not None:
                    init[name] = tags
                    if rng.random() < 0.4:
                        plain.append(name)
        objs.append({"kind": kind, "type": otname, "inst": inst, "name": "%s-%d" % (otname, inst),
                     "own": own, "init": init, "plain": sorted(plain)})
        inst += 1
    for cname in rng.sample(E.cmd_names, min(n_cmd, len(E.cmd_names))):
        cls = get_class(E, "cmd", cname)
        objs.append({"kind": "cmd", "type": cname, "inst": 100 + inst, "name": "%s-%d" % (cname, inst),
                     "own": [], "init": {}, "plain": []})
        inst += 1
    for otname, dtname, pvname in rng.sample(CMDX[:3], 1) + rng.sample(CMDX[3:], 1):
        cls = get_class(E, "cmdx", otname, (dtname, pvname))
        init = {}
        unrelated = cls._properties.get("presentValue")
        if unrelated is not None and pvname != "presentValue":
            tags = gen_tags(E, unrelated.datatype, rng)
            if tags is not None:
                init["presentValue"] = tags
        objs.append({"kind": "cmdx", "type": otname, "inst": 300 + inst, "name": "%s-cmdx-%d" % (otname, inst),
                     "own": [dtname, pvname], "init": init, "plain": []})
        inst += 1
    ot = rng.choice(["analogValue", "binaryInput", "characterstringValue"])
    objs.append({"kind": "nw", "type": ot, "inst": 200 + inst, "name": "nw-%d" % inst, "own": [],
                 "init": {}, "plain": []})
    return {"objects": objs, "cov": rng.random() < 0.3}


class Fixture:
    """the two real stacks and the objects of one scenario"""

    def __init__(self, E, spec):
        self.E = E
        self.spec = spec
        vt = E.vt
        vt.reset()
        self.vlan = E.Network(broadcast_address=E.LocalBroadcast())
        mk = lambda name, inst: E.LocalDeviceObject(
            objectName=name, objectIdentifier=("device", inst), maxApduLengthAccepted=MAX_APDU,
            segmentationSupported="segmentedBoth", maxSegmentsAccepted=MAX_SEGMENTS, vendorIdentifier=999)
        self.client = E.App(mk("client", 1), self.vlan)
        self.devobj = mk("dut", 2)
        self.dev = (E.AppCov if spec.get("cov") else E.App)(self.devobj, self.vlan)
        self.dest = E.Address(2)
        self.objects = []          # (spec, instance)
        self._plan = {}            # per property table: what a dump visits
        self.shadow = {}           # oracle's own record of the commands it has sent: (type, inst) -> {priority: value hex}
        for o in spec["objects"]:
            cls = get_class(E, o["kind"], o["type"], o["own"])
            kw = {"objectIdentifier": (cls.objectType, o["inst"]), "objectName": o["name"]}
            for name, tags in o["init"].items():
                kw[name] = py_value(E, cls._properties[name].datatype, tags, plain=name in o["plain"])
            if o["kind"] == "cmd":
                kw.setdefault("statusFlags", [0, 0, 0, 0])
            inst = cls(**kw)
            self.dev.add_object(inst)
            self.objects.append((o, inst))
        vt.run()
        if vt.errors:
            raise core.Infra("fixture start-up logged %r" % (vt.errors[:2],))

    # -- the device's own tables, read directly (oracle side) ---------------
    def all_objects(self):
        return [({"kind": "dev", "type": "device", "inst": 2, "own": []}, self.devobj)] + self.objects

    def find(self, oid):
        """oid = [type number, instance] -> instance or None (as Application.get_object_id)"""
        E = self.E
        t = E.otname.get(oid[0], oid[0])
        return self.dev.objectIdentifier.get((t, oid[1]))

    def dump(self):
        """full property dump of the device (digest form), sorted"""
        E = self.E
        out = []
        for _spec, inst in self.all_objects():
            t, i = inst._values["objectIdentifier"]
            props = []
            plan = self._plan.get(id(inst._properties))
            if plan is None:
                plan = self._plan[id(inst._properties)] = [
                    (name, E.pidnum[name], p.datatype) for name, p in inst._properties.items()
                    if E.sch.custom(p) not in ("computed", "propList")]
            values = inst._values
            for name, pid, dt in plan:
                v = values.get(name)
                props.append([pid, None if v is None else digest_pval(pval_of(E, dt, v))])
            out.append({"oid": [E.otnum.get(t, t), i], "props": props})
        return out

    # -- model set-up ---------------------------------------------------------
    def model_setup(self):
        E = self.E
        reqs = [{"op": "reset"}]
        self.expected_ids = []
        for spec, inst in self.all_objects():
            cls = type(inst)
            base = E.bo.registered_object_types[(cls.objectType, 0)]
            # what the class and its mix-ins declare over the registered base
            # class (the objectType property register_object_type appends is
            # not a declaration: the model takes it from the base table)
            declared = [q for c in cls.__mro__ for q in vars(c).get("properties", [])]
            own, extra, replace = [], [], []
            for name, p in inst._properties.items():
                if base._properties.get(name) is p:
                    continue
                is_decl = any(p is q for q in declared)
                if not is_decl and cls._properties.get(name) is p:
                    continue                      # the objectType register_object_type appended
                d = E.sch.prop(p)
                if d["custom"] == "computed":
                    # what the property computes on a read (clock / service table / subscriptions): supplied
                    d["cval"] = pval_of(E, p.datatype, p.ReadProperty(inst))
                # declared by the class / a mix-in, or added to the instance (Object.add_property:
                # appended after everything else, e.g. activeCovSubscriptions by the COV services)
                # ... an identifier the class already has keeps its place in the dictionary)
                (own if is_decl else replace if name in cls._properties else extra).append(d)
            init = []
            for name, p in inst._properties.items():
                if name == "objectType" and "objectType" not in spec.get("init", {}):
                    continue                      # left to the model's default handling
                cust = E.sch.custom(p)
                if cust == "propList":
                    continue
                v = inst._values.get(name)
                if cust == "computed":
                    # only presence matters (propertyList); `()` is how the library marks it
                    pv = None if v is None else {"one": {"enc": []}}
                else:
                    pv = pval_of(E, p.datatype, v)
                if pv is not None:
                    init.append([E.pidnum[name], pv])
            cmd = None
            if cmd_props(cls) is not None:
                cmd = [E.pidnum[n] for n in cmd_props(cls)]
            t, i = inst._values["objectIdentifier"]
            reqs.append({"op": "add", "oid": [E.otnum[t], i], "base": E.otnum[cls.objectType], "own": own,
                         "extra": extra, "replace": replace, "cmd": cmd, "init": init, "local": spec["kind"] == "dev"})
            self.expected_ids.append([E.pidnum[n] for n in inst._properties])
        reqs.append({"op": "snap"})
        return reqs

    # -- requests -------------------------------------------------------------
    def ask(self, apdu):
        from bacpypes.iocb import IOCB
        E = self.E
        apdu.pduDestination = self.dest
        iocb = IOCB(apdu)
        self.client.request_io(iocb)
        E.vt.run()
        return iocb.ioResponse if iocb.ioResponse is not None else iocb.ioError

    def oid_py(self, oid):
        return (self.E.otname.get(oid[0], oid[0]), oid[1])

    def pid_py(self, pid):
        return self.E.pidname.get(pid, pid)


# ------------------------------------------------------------------ canonical replies

def canon_refusal(E, r):
    from bacpypes.apdu import Error, RejectPDU, AbortPDU
    if isinstance(r, Error):
        c, k = r.errorClass, r.errorCode
        return {"r": "error", "cls": str(c), "code": str(k),
                "num": [E.errcls.get(c, c), E.errcode.get(k, k)]}
    if isinstance(r, RejectPDU):
        return {"r": "reject", "reason": r.apduAbortRejectReason}
    if isinstance(r, AbortPDU):
        return {"r": "abort", "reason": r.apduAbortRejectReason}
    if r is None:
        return {"r": "none"}
    return {"r": "python:" + type(r).__name__, "what": str(r)[:200]}


def num_oid(E, oid):
    t, i = oid
    return [E.otnum.get(t, t), i]


def num_pid(E, pid):
    return E.pidnum.get(pid, pid)


def canon_reply(E, op, r):
    from bacpypes.apdu import ReadPropertyACK, SimpleAckPDU, ReadPropertyMultipleACK
    if isinstance(r, ReadPropertyACK):
        return {"r": "ack", "hex": hex_of_any(r.propertyValue)}
    if isinstance(r, SimpleAckPDU):
        return {"r": "simpleack"}
    if isinstance(r, ReadPropertyMultipleACK):
        res = []
        for rar in r.listOfReadAccessResults:
            els = []
            for e in rar.listOfResults or []:
                rr = e.readResult
                item = {"pid": num_pid(E, e.propertyIdentifier), "idx": e.propertyArrayIndex}
                if rr.propertyAccessError is not None:
                    item["err"] = [str(rr.propertyAccessError.errorClass), str(rr.propertyAccessError.errorCode)]
                else:
                    item["val"] = hex_of_any(rr.propertyValue)
                els.append(item)
            res.append({"oid": num_oid(E, rar.objectIdentifier), "els": els})
        return {"r": "ack", "res": res}
    return canon_refusal(E, r)


def mask_volatile(E, op, rep):
    """localTime / localDate of the device object follow the clock: not compared"""
    vol = {E.pidnum[n] for n in VOLATILE}
    if op["op"] == "rp" and op["pid"] in vol and rep.get("r") == "ack":
        rep = dict(rep, hex="volatile")
    elif op["op"] == "rpm" and rep.get("r") == "ack":
        rep = json.loads(json.dumps(rep))
        for res in rep["res"]:
            for e in res["els"]:
                if e["pid"] in vol and "val" in e:
                    e["val"] = "volatile"
    return rep


# ------------------------------------------------------------------ client-side typing of a written value

def wire_of(E, fx, op):
    """the model's view of the request value: tags cut into elements + outcome of
    the generic constructed-data decoder for the type the handler will cast to"""
    from bacpypes.primitivedata import Atomic, Unsigned
    from bacpypes.constructeddata import Array, List, ArrayOf, AnyAtomic
    from bacpypes.errors import RejectException
    # a value sent with strings in another character set is described to the model by its
    # canonical (all UTF-8) rendering: the device stores the text, not the octets
    tags = op.get("canon") or op["tags"]
    whole = {"chunks": [tags], "dec": "ok"}
    obj = fx.find(op["oid"])
    if obj is None:
        return whole
    p = obj._properties.get(fx.pid_py(op["pid"]))
    if p is None:
        return whole
    dt, idx = p.datatype, op["idx"]
    seq = False
    if issubclass(dt, Array) and idx is not None:
        target = Unsigned if idx == 0 else dt.subtype
    elif issubclass(dt, (Array, List)):
        target, seq = dt.subtype, True
    else:
        target = dt
    if issubclass(target, (Atomic, AnyAtomic)):
        return {"chunks": [[t] for t in tags], "dec": "ok"}
    a = any_of_tags(tags)
    try:
        if seq:
            vals = a.cast_out(ArrayOf(target))
            chunks = []
            for v in vals:
                it = elem_item(E, target, v)
                if "enc" not in it:
                    return {"chunks": [tags], "dec": "other"}
                chunks.append(it["enc"])
            return {"chunks": chunks, "dec": "ok"}
        # what the device stores is the decoded value; a read re-encodes it (a lenient decoder may
        # accept a non-canonical encoding, e.g. an absent empty list): the model gets the re-encoding
        it = elem_item(E, target, a.cast_out(target))
        if "enc" not in it:
            return {"chunks": [tags], "dec": "other"}
        return {"chunks": [it["enc"]], "dec": "ok"}
    except RejectException as e:
        return {"chunks": [tags], "dec": "reject:%d" % E.rejreason[e.rejectReason]}
    except Exception:
        return {"chunks": [tags], "dec": "other"}


# ------------------------------------------------------------------ request generation

def idx_choices(n):
    return [None, None, None, 0, 1, n, n + 1, max(n - 1, 1), 0xFFFFFFFF]


def cur_len(inst, name):
    from bacpypes.constructeddata import Array
    p = inst._properties.get(name)
    if p is not None and type(p).__name__ == "CurrentPropertyList":
        return len([k for k, v in inst._values.items() if v is not None and k not in PROTECTED])
    v = inst._values.get(name)
    if isinstance(v, Array) and isinstance(v.value, list):
        return len(v.value) - 1
    return 0


def pick_object(E, fx, rng):
    r = rng.random()
    if r < 0.05:
        return [rng.choice([2, 0, 300, 8]), rng.choice([999, 4194303, 77])], None       # (mostly) unknown
    if r < 0.08:
        return [8, 4194303], fx.devobj                                                    # wildcard device
    spec, inst = rng.choice(fx.all_objects())
    t, i = inst._values["objectIdentifier"]
    return [E.otnum[t], i], inst


def pick_property(E, fx, inst, rng, for_write=False):
    if inst is None or rng.random() < 0.06:
        return rng.choice([E.pidnum["presentValue"], E.pidnum["objectName"], 9999, 511, E.pidnum["all"],
                           E.pidnum["vendorName"], E.pidnum["units"]])
    props = inst._properties
    names = list(props)
    present = [n for n in names if inst._values.get(n) is not None]
    if for_write:
        writable = [n for n in present if props[n].mutable]
        r = rng.random()
        if writable and r < 0.7:
            return E.pidnum[rng.choice(writable)]
        if present and r < 0.9:
            return E.pidnum[rng.choice(present)]
        return E.pidnum[rng.choice(names)]
    if present and rng.random() < 0.75:
        return E.pidnum[rng.choice(present)]
    return E.pidnum[rng.choice(names)]


def gen_read(E, fx, rng):
    oid, inst = pick_object(E, fx, rng)
    pid = pick_property(E, fx, inst, rng)
    name = E.pidname.get(pid)
    n = cur_len(inst, name) if inst is not None and name else 0
    return {"op": "rp", "oid": oid, "pid": pid, "idx": rng.choice(idx_choices(n))}


def gen_write(E, fx, rng):
    from bacpypes.constructeddata import Array, List
    from bacpypes.primitivedata import Unsigned, Null, Real, Double, Enumerated
    canon = None
    oid, inst = pick_object(E, fx, rng)
    pid = pick_property(E, fx, inst, rng, for_write=True)
    name = E.pidname.get(pid)
    p = inst._properties.get(name) if inst is not None and name else None
    cp = cmd_props(inst) if inst is not None else None
    is_cmd = cp is not None
    n = cur_len(inst, name) if p is not None else 0
    idx = None
    vclass = "typed"
    if p is not None and issubclass(p.datatype, Array):
        idx = rng.choice([None, None, 0, 1, n, n + 1, max(n - 1, 1), 0xFFFFFFFF])
    elif rng.random() < 0.08:
        idx = rng.choice([0, 1, 2])
    # the value
    r = rng.random()
    if p is None:
        klass = rng.choice(E.pool)
        vclass = "any"
    elif r < 0.70:
        dt = p.datatype
        if issubclass(dt, Array) and idx is not None:
            klass = Unsigned if idx == 0 else dt.subtype
        else:
            klass = dt
    elif r < 0.74 and limited_unsigned(p.datatype) is not None and idx != 0:
        # right tag, value beyond the limit of the Unsigned subclass (Unsigned8, Unsigned16, ...)
        tags = over_limit_tags(E, p.datatype, idx, rng)
        prio = None
        return {"op": "wp", "oid": oid, "pid": pid, "idx": idx, "tags": tags, "prio": prio, "vclass": "range"}
    elif r < 0.78:
        klass, vclass = Null, "null"
    elif r < 0.86 and issubclass(p.datatype, (Array, List)):
        # wrong shape: element for the whole / whole for an element
        klass, vclass = (p.datatype.subtype if idx is None else p.datatype), "shape"
    else:
        klass, vclass = rng.choice(E.pool), "other"
    if klass is Null:
        tags = [[0, 0, 0, ""]]
    elif klass is Unsigned and idx == 0:
        fixed = getattr(p.datatype, "fixed_length", None) if p is not None else None
        m = rng.choice([n, n, n + 1, max(n - 1, 0), 0, n + 2] if fixed is None else [fixed, fixed, n + 1, 0])
        tags = jt(any_of_value(Unsigned(m)).tagList)
    else:
        tags, canon = gen_tags2(E, klass, rng)
        if tags is None:
            tags = [[0, 0, 0, ""]]
            vclass = "null"
    if idx == 0 and len(tags) == 1 and tags[0][0] == 0 and tags[0][1] == 2:
        # array[0] := m resizes the array to m elements: keep m small (a count of 2^32-1 makes the
        # device — and the model — allocate four billion elements; noted in notes/C15.md)
        m = int.from_bytes(bytes.fromhex(tags[0][3]) or b"\0", "big")
        if m > n + 40:
            tags = jt(any_of_value(Unsigned(n + 2)).tagList)
    prio = rng.choice([None, None, None, 1, 8, 16, rng.randrange(1, 17), 0, 17, -1]) if (is_cmd or rng.random() < 0.2) else None
    op = {"op": "wp", "oid": oid, "pid": pid, "idx": idx, "tags": tags, "prio": prio, "vclass": vclass}
    if canon is not None and tags is not None and same_modulo_charset(tags, canon):
        op["canon"] = canon          # the same value with every string in UTF-8
    # clauses owned by C17 (see ASSUMPTIONS): keep them out of the stream
    if is_cmd and name == cp[1] and idx not in (None, 0) and vclass != "null":
        op["tags"], op["vclass"] = [[0, 0, 0, ""]], "null"
        op.pop("canon", None)
    if is_cmd and name == cp[0] and p is not None and tags and tags != [[0, 0, 0, ""]]:
        if issubclass(p.datatype, Enumerated) and tags[0][1] == 9:
            v = int.from_bytes(bytes.fromhex(tags[0][3]) or b"\0", "big")
            if v not in p.datatype._xlate_table:
                op["tags"], op["vclass"] = [[0, 0, 0, ""]], "null"
    return op


def limited_unsigned(dt):
    """the Unsigned subclass with a high limit that the datatype (or its element type) is, or None"""
    from bacpypes.primitivedata import Unsigned
    from bacpypes.constructeddata import Array, List
    k = dt.subtype if issubclass(dt, (Array, List)) else dt
    if isinstance(k, type) and issubclass(k, Unsigned) and k._high_limit is not None:
        return k
    return None


def over_limit_tags(E, dt, idx, rng):
    from bacpypes.primitivedata import Unsigned
    from bacpypes.constructeddata import Array, List
    k = limited_unsigned(dt)
    big = Unsigned(k._high_limit + rng.choice([1, 1, 2, 1000]))
    if issubclass(dt, (Array, List)) and idx is None:
        n = getattr(dt, "fixed_length", None) or rng.choice([1, 2, 3])
        vals = [Unsigned(rng.randrange(k._low_limit, k._high_limit + 1)) for _ in range(n)]
        vals[rng.randrange(n)] = big
        a = any_of_value(vals[0])
        for v in vals[1:]:
            a.cast_in(v)
        return jt(a.tagList)
    return jt(any_of_value(big).tagList)


def any_of_value(v):
    from bacpypes.constructeddata import Any
    a = Any()
    a.cast_in(v)
    return a


def gen_rpm(E, fx, rng):
    specs = []
    for _ in range(rng.choice([1, 1, 2, 3])):
        oid, inst = pick_object(E, fx, rng)
        refs = []
        for _ in range(rng.choice([1, 2, 3, 5])):
            r = rng.random()
            if r < 0.25:
                pid = rng.choice([E.pidnum["all"], E.pidnum["required"], E.pidnum["optional"]])
                idx = rng.choice([None, None, None, 0, 1, 2])
            else:
                pid = pick_property(E, fx, inst, rng)
                name = E.pidname.get(pid)
                n = cur_len(inst, name) if inst is not None and name else 0
                idx = rng.choice(idx_choices(n))
            refs.append({"pid": pid, "idx": idx})
        specs.append({"oid": oid, "refs": refs})
    return {"op": "rpm", "specs": specs}


def directed_ops(E, fx, rng, limit=70):
    """boundary grid over the fixture: every present array property (stored or
    computed) is read at 0, 1, n, n+1; every writable property of a limited
    Unsigned datatype is written at and beyond its limit; every commandable
    object is commanded at priorities 1, 16, none, 0, 17"""
    from bacpypes.constructeddata import Array
    from bacpypes.primitivedata import Unsigned
    ops, must = [], []      # `must`: the rare datatype classes, never cut by the limit
    for spec, inst in fx.all_objects():
        t, i = inst._values["objectIdentifier"]
        oid = [E.otnum[t], i]
        for name, p in inst._properties.items():
            pid = E.pidnum[name]
            if issubclass(p.datatype, Array) and (inst._values.get(name) is not None or name == "propertyList"):
                n = cur_len(inst, name)
                for idx in sorted({0, 1, n, n + 1}):
                    ops.append({"op": "rp", "oid": oid, "pid": pid, "idx": idx})
                ops.append({"op": "rpm", "specs": [{"oid": oid, "refs": [{"pid": pid, "idx": n}, {"pid": pid, "idx": n + 1},
                                                                          {"pid": pid, "idx": 0}]}]})
            if E.sch.custom(p) == "computed":
                # computed by the device (clock, services, COV subscriptions): never an array, never writable
                must.append({"op": "rp", "oid": oid, "pid": pid, "idx": 1})
                must.append({"op": "rp", "oid": oid, "pid": pid, "idx": None})
                tags = gen_tags(E, p.datatype, rng)
                if tags is not None:
                    must.append({"op": "wp", "oid": oid, "pid": pid, "idx": None, "tags": tags, "prio": None,
                                 "vclass": "typed"})
            must.extend(charset_ops(E, inst, oid, name, p, rng))
            must.extend(signed_zero_ops(E, inst, oid, name, p, rng))
            k = limited_unsigned(p.datatype)
            if k is not None and p.mutable and inst._values.get(name) is not None:
                for vclass, make in (("typed", lambda: gen_tags(E, p.datatype, rng)),
                                     ("range", lambda: over_limit_tags(E, p.datatype, None, rng))):
                    tags = make()
                    if tags is not None:
                        must.append({"op": "wp", "oid": oid, "pid": pid, "idx": None, "tags": tags, "prio": None,
                                     "vclass": vclass})
        if cmd_props(inst) is not None:
            p = inst._properties[cmd_props(inst)[0]]
            for prio in (1, 16, None, 0, 17):
                tags = None
                for _ in range(8):
                    tags = gen_tags(E, p.datatype, rng)
                    probe = {"tags": tags}
                    if tags is not None and cmd_value_ok(p, tags):
                        break
                    tags = None
                if tags is not None:
                    ops.append({"op": "wp", "oid": oid, "pid": E.pidnum[cmd_props(inst)[0]], "idx": None, "tags": tags,
                                "prio": prio, "vclass": "typed"})
    rng.shuffle(ops)
    return falsy_command_ops(E, fx, rng) + must + boundary_ops(E, fx, rng) + ops[:limit]


THOROUGH = [0]


def charset_ops(E, inst, oid, name, p, rng):
    """a writable character-string property (scalar, array, list): one write per character set
    3 / 4 / 5 — whole value or an array element —, each followed by a ReadPropertyMultiple"""
    from bacpypes.primitivedata import CharacterString
    from bacpypes.constructeddata import Array, List, Any
    dt = p.datatype
    k = dt.subtype if issubclass(dt, (Array, List)) else dt
    if not (isinstance(k, type) and issubclass(k, CharacterString)) or not p.mutable \
            or inst._values.get(name) is None or E.sch.custom(p) not in ("std", "wrName") or rng.random() < 0.5:
        return []
    ops, pid = [], E.pidnum[name]
    for cs in (3, 4, 5):
        text = rng.choice(["Zone é", "a", "north-%d" % rng.randrange(100), "éè 中" if cs != 5 else "ÿþ"])
        if name == "objectName":
            text += "-%d-%d" % (oid[1], cs)            # names stay unique
        sent, canon, idx = Any(), Any(), None
        if issubclass(dt, Array):
            n = cur_len(inst, name)
            fixed = getattr(dt, "fixed_length", None)
            if n >= 1 and rng.random() < 0.5:
                idx = rng.choice([1, n])
                sent.cast_in(charset_string(text, cs)); canon.cast_in(CharacterString(text))
            else:
                for j in range(fixed if fixed is not None else 2):
                    sent.cast_in(charset_string(text + str(j), cs)); canon.cast_in(CharacterString(text + str(j)))
        elif issubclass(dt, List):
            for j in range(2):
                sent.cast_in(charset_string(text + str(j), cs)); canon.cast_in(CharacterString(text + str(j)))
        else:
            sent.cast_in(charset_string(text, cs)); canon.cast_in(CharacterString(text))
        op = {"op": "wp", "oid": oid, "pid": pid, "idx": idx, "tags": jt(sent.tagList), "prio": None,
              "vclass": "typed", "boundary": True}
        if jt(canon.tagList) != op["tags"]:
            op["canon"] = jt(canon.tagList)
        if cmd_props(inst) is not None and name == cmd_props(inst)[0]:
            op["prio"] = rng.choice([None, 7])
        ops.append(op)
        ops.append({"op": "rpm", "specs": [{"oid": oid, "refs": [{"pid": pid, "idx": idx}]}]})
    return ops


def signed_zero_ops(E, inst, oid, name, p, rng):
    """values that Python's == calls equal but that encode differently: +0.0 / -0.0 of Real and
    Double, written one after the other (and back) to a writable scalar, array element, whole array
    or list of that datatype; the write oracle reads each back and compares OCTETS (bit pattern).
    Not on Commandable properties: there the library's own "no present value change" shortcut
    compares with == (C17's exclusion, notes/C15.md)."""
    from bacpypes.primitivedata import Real, Double
    from bacpypes.constructeddata import Array, List
    dt = p.datatype
    k = dt.subtype if issubclass(dt, (Array, List)) else dt
    if not (isinstance(k, type) and issubclass(k, (Real, Double))) or not p.mutable \
            or inst._values.get(name) is None or E.sch.custom(p) != "std":
        return []
    cp = cmd_props(inst)
    if cp is not None and name in cp:
        return []
    tagnum, width = (4, 4) if issubclass(k, Real) else (5, 8)
    plus = [0, tagnum, width, "00" * width]
    minus = [0, tagnum, width, "80" + "00" * (width - 1)]
    ops, pid = [], E.pidnum[name]
    order = [plus, minus, plus, minus] if rng.random() < 0.5 else [minus, plus, minus]
    for z in order:
        idx = None
        if issubclass(dt, Array):
            n = cur_len(inst, name)
            fixed = getattr(dt, "fixed_length", None)
            if n >= 1 and rng.random() < 0.6:
                idx, tags = 1, [z]
            else:
                tags = [z] * (fixed if fixed is not None else 2)
        elif issubclass(dt, List):
            tags = [z, z]
        else:
            tags = [z]
        ops.append({"op": "wp", "oid": oid, "pid": pid, "idx": idx, "tags": tags, "prio": None,
                    "vclass": "typed", "boundary": True})
    return ops


def boundary_ops(E, fx, rng, per_object=3):
    """string-like leaves at the tag-length escape boundaries, written as a whole property, as an
    array element and as list / array members, each read back by ReadProperty (the write oracle)
    AND by ReadPropertyMultiple; in thorough one value of 65 535 / 65 536 octets per scenario"""
    from bacpypes.constructeddata import Array, List, Any
    ops = []
    big_left = 1 if THOROUGH[0] > 0 else 0          # one such value per shard (they are slow to snapshot)
    for spec, inst in fx.all_objects():
        t, i = inst._values["objectIdentifier"]
        oid = [E.otnum[t], i]
        cands = []
        for name, p in inst._properties.items():
            dt = p.datatype
            k = dt.subtype if issubclass(dt, (Array, List)) else dt
            if string_like(k) and p.mutable and inst._values.get(name) is not None \
                    and E.sch.custom(p) == "std" and name not in PROTECTED:
                cands.append((name, p, k))
        rng.shuffle(cands)
        for name, p, k in cands[:per_object]:
            dt, pid = p.datatype, E.pidnum[name]
            big = big_left > 0 and not issubclass(dt, (Array, List))
            if big:
                big_left -= 1
                THOROUGH[0] -= 1
            mk = lambda: k(boundary_value(k, rng, big=big))
            a = Any()
            idx = None
            if issubclass(dt, Array):
                n = cur_len(inst, name)
                fixed = getattr(dt, "fixed_length", None)
                if n >= 1 and rng.random() < 0.5:
                    idx = rng.choice([1, n])
                    a.cast_in(mk())
                else:
                    m = fixed if fixed is not None else rng.choice([1, 2])
                    for _ in range(m):
                        a.cast_in(mk() if rng.random() < 0.7 else k(gen_atomic(k, rng)))
            elif issubclass(dt, List):
                for _ in range(rng.choice([1, 2])):
                    a.cast_in(mk())
            else:
                a.cast_in(mk())
            ops.append({"op": "wp", "oid": oid, "pid": pid, "idx": idx, "tags": jt(a.tagList), "prio": None,
                        "vclass": "typed", "boundary": True})
            refs = [{"pid": pid, "idx": idx}] + ([{"pid": pid, "idx": None}] if idx is not None else [])
            ops.append({"op": "rpm", "specs": [{"oid": oid, "refs": refs}]})
    return ops


def falsy_tags(dt):
    """the zero / empty value of an atomic present-value datatype, as tags (None if there is none)"""
    from bacpypes import primitivedata as pd
    for klass, v in ((pd.Real, 0.0), (pd.Double, 0.0), (pd.Unsigned, 0), (pd.Integer, 0), (pd.CharacterString, ""),
                     (pd.OctetString, b""), (pd.BitString, []), (pd.Boolean, False)):
        if issubclass(dt, klass):
            return jt(any_of_value(dt(v)).tagList)
    if issubclass(dt, pd.Enumerated) and 0 in dt._xlate_table:
        return jt(any_of_value(dt(0)).tagList)
    return None


def falsy_command_ops(E, fx, rng):
    """for every commandable object: a non-zero value at a low priority (number 12), then the
    zero / empty value (0.0, 0, inactive, '') above it (number 4), the relinquish of both, and the
    zero value alone — in this order (the oracle reads presentValue after each)"""
    ops = []
    NULL = [[0, 0, 0, ""]]
    for spec, inst in fx.all_objects():
        cp = cmd_props(inst)
        if cp is None:
            continue
        p = inst._properties[cp[0]]
        t, i = inst._values["objectIdentifier"]
        oid, pid = [E.otnum[t], i], E.pidnum[cp[0]]
        if cp[0] != "presentValue":
            # Commandable() on a custom name: command the value an UNRELATED presentValue of the same
            # object happens to hold, over another value, and relinquish again; read the property,
            # the priority array and the relinquish default (the oracle reads the property itself)
            other = inst._properties.get("presentValue")
            same = None
            if other is not None and inst._values.get("presentValue") is not None and other.datatype is p.datatype:
                same = elem_item(E, other.datatype, inst._values["presentValue"]).get("enc")
            base_v = None
            for _ in range(20):
                tg = gen_tags(E, p.datatype, rng)
                if tg is not None and tg != same and cmd_value_ok(p, tg):
                    base_v = tg
                    break
            if base_v is not None:
                seq = [(base_v, 10, "typed")]
                if same is not None and cmd_value_ok(p, same):
                    seq += [(same, 8, "typed"), (NULL, 8, "null"), (same, None, "typed")]
                seq += [(NULL, 10, "null"), (base_v, 3, "typed"), (NULL, 3, "null"), (NULL, 16, "null")]
                for tags, prio, vc in seq:
                    ops.append({"op": "wp", "oid": oid, "pid": pid, "idx": None, "tags": tags, "prio": prio, "vclass": vc})
                    ops.append({"op": "rpm", "specs": [{"oid": oid, "refs": [
                        {"pid": pid, "idx": None}, {"pid": E.pidnum[cp[1]], "idx": None},
                        {"pid": E.pidnum[cp[1]], "idx": 16 if prio is None else prio},
                        {"pid": E.pidnum[cp[2]], "idx": None}]}]})
        fz = falsy_tags(p.datatype)
        if fz is None:
            continue
        nz = None
        for _ in range(20):
            t = gen_tags(E, p.datatype, rng)
            if t is not None and t != fz and cmd_value_ok(p, t):
                nz = t
                break
        if nz is None:
            continue
        lo, hi = rng.choice([(12, 4), (16, 1), (None, 8), (9, 8)])
        for tags, prio, vc in ((nz, lo, "typed"), (fz, hi, "typed"), (NULL, hi, "null"), (fz, hi, "typed"),
                               (NULL, lo, "null"), (NULL, hi, "null"), (fz, None, "typed"), (nz, 16, "typed"), (fz, 16, "typed")):
            ops.append({"op": "wp", "oid": oid, "pid": pid, "idx": None, "tags": tags, "prio": prio, "vclass": vc})
    return ops


def cmd_value_ok(p, tags):
    """clauses owned by C17: no out-of-table enumerated command"""
    from bacpypes.primitivedata import Enumerated
    if issubclass(p.datatype, Enumerated) and tags and tags[0][1] == 9:
        v = int.from_bytes(bytes.fromhex(tags[0][3]) or b"\0", "big")
        return v in p.datatype._xlate_table
    return True


def gen_ops(E, fx, rng, n):
    """the ops are generated while the real device runs (index choices look at
    current lengths); the result is an explicit list that replays without an rng"""
    ops = []
    for op in directed_ops(E, fx, rng):
        yield op
    for _ in range(n):
        r = rng.random()
        if r < 0.35:
            yield_op = gen_read(E, fx, rng)
        elif r < 0.80:
            yield_op = gen_write(E, fx, rng)
        else:
            yield_op = gen_rpm(E, fx, rng)
        ops.append(yield_op)
        yield yield_op


# ------------------------------------------------------------------ running one op on the real stacks

def run_op(E, fx, op):
    from bacpypes.apdu import (ReadPropertyRequest, WritePropertyRequest, ReadPropertyMultipleRequest,
                               ReadAccessSpecification)
    from bacpypes.basetypes import PropertyReference
    # every other request is sent with ONE long-lived request object per service, modified
    # between sends (object, property, index, value, priority) — as applications that keep a
    # request around do; the others with a fresh object.  What is asked must be what is answered.
    fx.sent = getattr(fx, "sent", 0) + 1
    kept = fx.__dict__.setdefault("kept_requests", {})
    reuse = fx.sent % 2 == 1
    if op["op"] == "rp":
        kw = dict(objectIdentifier=fx.oid_py(op["oid"]), propertyIdentifier=fx.pid_py(op["pid"]),
                  propertyArrayIndex=op["idx"])
        cls = ReadPropertyRequest
    elif op["op"] == "wp":
        kw = dict(objectIdentifier=fx.oid_py(op["oid"]), propertyIdentifier=fx.pid_py(op["pid"]),
                  propertyArrayIndex=op["idx"], propertyValue=any_of_tags(op["tags"]), priority=op["prio"])
        cls = WritePropertyRequest
    elif op["op"] == "rpm":
        kw = dict(listOfReadAccessSpecs=[
            ReadAccessSpecification(objectIdentifier=fx.oid_py(s["oid"]), listOfPropertyReferences=[
                PropertyReference(propertyIdentifier=fx.pid_py(r["pid"]), propertyArrayIndex=r["idx"])
                for r in s["refs"]]) for s in op["specs"]])
        cls = ReadPropertyMultipleRequest
    else:
        raise core.Infra("bad op")
    if reuse and op["op"] in kept:
        req = kept[op["op"]]
        for k, v in kw.items():
            setattr(req, k, v)
    else:
        req = cls(**kw)
        if reuse:
            kept[op["op"]] = req
    E.vt.errors[:] = []
    raw = fx.ask(req)
    return raw, canon_reply(E, op, raw)


def rp(E, fx, oid, pid, idx):
    return run_op(E, fx, {"op": "rp", "oid": oid, "pid": pid, "idx": idx})[1]


# ------------------------------------------------------------------ the oracle (implementation side only)

def is_err(rep, cls, code):
    return rep.get("r") == "error" and rep.get("cls") == cls and rep.get("code") == code


def facts(E, fx, op):
    """what the device's own tables say about the addressed property, read
    directly from the Python objects BEFORE the request runs"""
    from bacpypes.constructeddata import Array
    f = {"obj": None, "prop": None}
    oid = op["oid"]
    if op["op"] == "rp" and oid == [8, 4194303]:
        obj = fx.devobj
    else:
        obj = fx.find(oid)
    f["obj"] = obj
    if obj is None:
        return f
    p = obj._properties.get(fx.pid_py(op["pid"]))
    f["prop"] = p
    if p is None:
        return f
    f["custom"] = E.sch.custom(p)
    f["array"] = issubclass(p.datatype, Array)
    f["present"] = obj._values.get(p.identifier) is not None or f["custom"] in ("propList", "computed")
    f["len"] = cur_len(obj, p.identifier)
    f["cmd"] = cmd_props(obj)
    f["is_cmd"] = f["cmd"] is not None
    return f


def oracle_read(ctx, E, fx, case, op, f, rep):
    """error_matches + array_index_classes on a ReadProperty answer"""
    def bad(kind, what):
        ctx.fail(kind, case, what, op=op, reply=rep)
    if rep.get("r") in ("none", "abort") or rep.get("r", "").startswith("python:"):
        return bad("no-answer", "ReadProperty got %r" % (rep,))
    if f["obj"] is None:
        if not is_err(rep, "object", "unknownObject"):
            bad("error-matches", "unknown object answered %r" % (rep,))
        return
    if f["prop"] is None:
        if not is_err(rep, "property", "unknownProperty"):
            bad("error-matches", "unknown property answered %r" % (rep,))
        return
    idx = op["idx"]
    if idx is not None and not f["array"]:
        if not is_err(rep, "property", "propertyIsNotAnArray"):
            bad("error-matches", "index on a non-array property answered %r" % (rep,))
        return
    if not f["present"]:
        if not is_err(rep, "property", "unknownProperty"):
            bad("error-matches", "absent property answered %r" % (rep,))
        return
    if f["custom"] == "propList":
        # CurrentPropertyList, from the object's own value dictionary: the identifiers
        # with a value (minus the four the standard excludes), sorted by name
        from bacpypes.basetypes import PropertyIdentifier
        from bacpypes.primitivedata import Unsigned
        names = sorted(k for k, v in f["obj"]._values.items() if v is not None and k not in PROTECTED)
        enc = [hex_of_any(any_of_value(PropertyIdentifier(k))) for k in names]
        if idx is None:
            want = {"r": "ack", "hex": "".join(enc)}
        elif idx == 0:
            want = {"r": "ack", "hex": hex_of_any(any_of_value(Unsigned(len(names))))}
        elif idx <= len(names):
            want = {"r": "ack", "hex": enc[idx - 1]}
        else:
            want = None
        if want is None:
            if not is_err(rep, "property", "invalidArrayIndex"):
                bad("array-index", "propertyList[%d] of %d answered %r" % (idx, len(names), rep))
        elif rep.get("r") != "ack" or rep.get("hex") != want["hex"]:
            bad("array-index", "propertyList%s answered %r, expected %s" % ("" if idx is None else "[%d]" % idx, rep, want["hex"]))
        return
    if f["custom"] != "std" and f["custom"] != "objId" and f["custom"] != "wrName":
        return
    if idx is not None:
        n = f["len"]
        if idx == 0:
            want = hex_of_any(any_of_value(__import__("bacpypes.primitivedata").primitivedata.Unsigned(n)))
            if rep.get("r") != "ack" or rep.get("hex") != want:
                bad("array-index", "index 0 of an array of %d answered %r" % (n, rep))
        elif idx > n:
            if not is_err(rep, "property", "invalidArrayIndex"):
                bad("array-index", "index %d of an array of %d answered %r" % (idx, n, rep))
        else:
            obj = f["obj"]
            p = f["prop"]
            it = elem_item(E, p.datatype.subtype, obj._values[p.identifier].value[idx])
            if "enc" in it and (rep.get("r") != "ack" or rep.get("hex") != hex_of_tags(it["enc"])):
                bad("array-index", "element %d answered %r, stored %s" % (idx, rep, hex_of_tags(it["enc"])))
    else:
        # the whole value: what is stored, encoded element by element (skipped when an
        # element is an un-initialised fix_length default that has no encoding)
        obj, p = f["obj"], f["prop"]
        pv = pval_of(E, p.datatype, obj._values.get(p.identifier))
        items = [pv["one"]] if "one" in pv else pv.get("arr", pv.get("lst"))
        if items is not None and all("enc" in it for it in items):
            want = "".join(hex_of_tags(it["enc"]) for it in items)
            if rep.get("r") != "ack" or rep.get("hex") != want:
                bad("read-fails", "present property answered %r, stored %s" % (rep, want[:80]))


def oracle_write(ctx, E, fx, case, op, f, rep, before, after, wire):
    """refused_write_pure, error_matches and write_then_read on a WriteProperty answer"""
    def bad(kind, what, **kw):
        ctx.fail(kind, case, what, op=op, reply=rep, **kw)
    kind = rep.get("r")
    if kind in ("none", "abort") or kind.startswith("python:"):
        return bad("no-answer", "WriteProperty got %r" % (rep,))
    acked = kind == "simpleack"
    # all-or-nothing
    if not acked and before != after:
        diff = [(a["oid"], pa, pb) for a, b in zip(before, after) for pa, pb in zip(a["props"], b["props"]) if pa != pb]
        bad("refused-write-mutates", "refused with %r but the device changed: %r" % (rep, diff[:3]))
    # the matching refusal, decided from the device's own tables
    idx = op["idx"]
    if f["obj"] is None:
        if not is_err(rep, "object", "unknownObject"):
            bad("error-matches", "unknown object answered %r" % (rep,))
        return
    if f["prop"] is None:
        if not is_err(rep, "property", "unknownProperty"):
            bad("error-matches", "unknown property answered %r" % (rep,))
        return
    if idx is not None and not f["array"]:
        if not is_err(rep, "property", "propertyIsNotAnArray"):
            bad("error-matches", "index on a non-array property answered %r" % (rep,))
        return
    if not f["present"]:
        if not is_err(rep, "property", "unknownProperty"):
            bad("error-matches", "absent property answered %r" % (rep,))
        return
    if idx is not None and idx > f["len"]:
        if not is_err(rep, "property", "invalidArrayIndex"):
            bad("error-matches", "index %d of an array of %d answered %r" % (idx, f["len"], rep))
        return
    if is_err(rep, "device", "operationalProblem"):
        bad("error-matches", "answered device/operationalProblem (vclass=%s)" % op.get("vclass"), logged=E.vt.errors[:2])
        return
    p = f["prop"]
    # "typed" = generated from the datatype AND accepted by the library's own decoder on the
    # client side (a value the codec cannot take back is C03's business, not a C15 refusal)
    typed = op.get("vclass") == "typed" and wire.get("dec") == "ok"
    cpv, cpa, crd = f["cmd"] if f["is_cmd"] else (None, None, None)
    pure_pa = f["is_cmd"] and p.identifier == cpa
    if typed and not p.mutable and not (f["is_cmd"] and p.identifier in (cpv, cpa)):
        if not is_err(rep, "property", "writeAccessDenied"):
            bad("error-matches", "well-typed write to a read-only property answered %r" % (rep,))
        return
    # (a value that encodes as the single application Null tag — the null alternative of a Choice —
    #  is taken by the handler for "Null" and refused: the handler's Null special case, notes/C15.md)
    if typed and op["tags"] != [[0, 0, 0, ""]] and kind == "reject" and (p.mutable or (f["is_cmd"] and p.identifier == cpv)):
        bad("typed", "a value of the property's own datatype (accepted by the client-side decoder) was answered "
            "with Reject %r" % (rep.get("reason"),))
        return
    if op.get("vclass") in ("null",) and not f["is_cmd"] and acked:
        bad("typed", "Null written to a non-commandable property was acknowledged")
        return
    if op.get("vclass") == "range" and acked:
        bad("typed", "a value beyond the limit of the property's Unsigned datatype was acknowledged")
        return
    if f["is_cmd"] and p.identifier == cpv and (typed or op.get("vclass") == "null"):
        valid_prio = op["prio"] is None or 1 <= op["prio"] <= 16
        if valid_prio and not acked:
            bad("priority", "a command at priority %r was refused with %r" % (op["prio"], rep))
            return
        if not valid_prio and acked:
            bad("priority", "a command at priority %r was acknowledged" % (op["prio"],))
            return
    if not acked:
        return
    # write_then_read (over the wire)
    is_null = op["tags"] == [[0, 0, 0, ""]]
    if pure_pa and idx not in (None, 0) and is_null:
        # an acknowledged direct relinquish of one slot: the shadow follows
        fx.shadow.setdefault(tuple(op["oid"]), {}).pop(idx, None)
        oracle_present_value(ctx, E, fx, case, op, rep)
        return
    if f["custom"] not in ("std", "wrName") or pure_pa:
        return
    # the written value: for a constructed value its canonical re-encoding (see wire_of)
    written = hex_of_tags([t for ch in wire["chunks"] for t in ch] if wire.get("dec") == "ok" else op["tags"])
    if f["is_cmd"] and p.identifier == cpv:
        # the command sits in its slot (or the slot is Null after a relinquish)
        prio = 16 if op["prio"] is None else op["prio"]
        back = rp(E, fx, op["oid"], E.pidnum[cpa], prio)
        if back.get("r") != "ack" or back.get("hex") != written:
            bad("write-then-read", "priorityArray[%d] reads %r after writing %s" % (prio, back, written))
        # ... and presentValue shows the highest-priority command the oracle has sent
        slots = fx.shadow.setdefault(tuple(op["oid"]), {})
        if is_null:
            slots.pop(prio, None)
        else:
            slots[prio] = written
        oracle_present_value(ctx, E, fx, case, op, rep)
        return
    if op.get("vclass") == "null":
        return
    back = rp(E, fx, op["oid"], op["pid"], idx)
    if idx == 0:
        if back.get("r") != "ack" or back.get("hex") != written:
            bad("write-then-read", "length reads %r after writing %s" % (back, written))
        return
    if back.get("r") != "ack" or back.get("hex") != written:
        bad("write-then-read", "reads %r after acknowledged write of %s" % (short(back), written[:120]))
        return
    if op.get("boundary"):
        # ... and ReadPropertyMultiple shows the same decoded value
        m = run_op(E, fx, {"op": "rpm", "specs": [{"oid": op["oid"], "refs": [{"pid": op["pid"], "idx": idx}]}]})[1]
        els = [e for res in m.get("res", []) for e in res["els"]] if m.get("r") == "ack" else []
        if len(els) != 1 or els[0].get("val") != written:
            bad("write-then-read", "ReadPropertyMultiple reads %r after acknowledged write of %s" % (short(m), written[:120]))
            return
    if idx is None and f["array"]:
        # element-wise: index 0 is the count, index k the k-th written element
        chunks = wire["chunks"]
        b0 = rp(E, fx, op["oid"], op["pid"], 0)
        want0 = hex_of_any(any_of_value(__import__("bacpypes.primitivedata").primitivedata.Unsigned(len(chunks))))
        if b0.get("r") != "ack" or b0.get("hex") != want0:
            bad("write-then-read", "length reads %r after writing %d elements" % (b0, len(chunks)))
        for k, ch in list(enumerate(chunks, 1))[:3]:
            bk = rp(E, fx, op["oid"], op["pid"], k)
            if bk.get("r") != "ack" or bk.get("hex") != hex_of_tags(ch):
                bad("write-then-read", "element %d reads %r after writing %s" % (k, bk, hex_of_tags(ch)))


def short(rep):
    """a reply with long value octets cut, for messages"""
    txt = json.dumps(rep)
    return rep if len(txt) < 400 else txt[:400] + "..."


def oracle_present_value(ctx, E, fx, case, op, rep):
    """after an acknowledged command / relinquish: ReadProperty(presentValue) returns the
    value commanded at the lowest occupied priority number according to the oracle's own
    shadow of the commands it has sent, or the relinquishDefault when every slot is empty"""
    slots = fx.shadow.get(tuple(op["oid"]), {})
    cpv, cpa, crd = cmd_props(fx.find(op["oid"]))
    pv = rp(E, fx, op["oid"], E.pidnum[cpv], None)
    if slots:
        top = min(slots)
        want, why = slots[top], "the command at priority %d" % top
    else:
        rd = rp(E, fx, op["oid"], E.pidnum[crd], None)
        if rd.get("r") != "ack":
            return
        want, why = rd["hex"], "the relinquishDefault (no command left)"
    if pv.get("r") != "ack" or pv.get("hex") != want:
        ctx.fail("present-value", case,
                 "%s reads %r after an acknowledged %s at priority %r; expected %s = %s (commands sent: %r)" % (
                     cpv, pv, "relinquish" if op["tags"] == [[0, 0, 0, ""]] else "command of " + hex_of_tags(op["tags"]),
                     op["prio"] if op["pid"] == E.pidnum[cpv] else op["idx"], why, want,
                     sorted(slots.items())),
                 op=op, reply=rep, commands=sorted(slots.items()))


# the limits both stacks are configured with (Fixture: maxApduLengthAccepted, maxSegmentsAccepted)
MAX_APDU, MAX_SEGMENTS = 1476, 64


def answer_fits(data_len):
    """ServerSSM's rule for a ComplexAck of `data_len` octets of service data: it goes out
    unsegmented when it fits one APDU (3 octets of header), else in segments of MAX_APDU - 5
    octets, and the transaction is aborted (apdu-too-long) when that takes more segments than
    the client accepts"""
    if data_len + 3 <= MAX_APDU:
        return True
    seg = MAX_APDU - 5
    return (data_len + seg - 1) // seg <= MAX_SEGMENTS


def _nat_len(n):
    return max(1, (n.bit_length() + 7) // 8)


def rpm_ack_len(E, results):
    """exact length of the service data of the ReadPropertyMultipleACK that carries `results`
    ([{"oid", "els": [{"pid", "idx", "val": hex | "err": [class, code]}]}]) — counted with the
    standard's tag sizes, not with the library"""
    total = 0
    for res in results:
        total += 5 + 2                                   # [0] object identifier, [1] open / close
        for e in res["els"]:
            total += 1 + _nat_len(e["pid"])              # [2] property identifier
            if e.get("idx") is not None:
                total += 1 + _nat_len(e["idx"])          # [3] array index
            total += 2                                   # [4] / [5] open / close
            if "val" in e:
                total += len(e["val"]) // 2
            else:
                c = E.errcls.get(e["err"][0], 0)
                k = E.errcode.get(e["err"][1], 0)
                total += 1 + _nat_len(c) + 1 + _nat_len(k)
    return total


def expected_rpm_results(E, fx, op):
    """what the request should be answered with, assembled from single ReadProperty requests
    (selectors expanded over the device's own tables); None if some single read is neither an ack
    nor an Error"""
    sels = (E.pidnum["all"], E.pidnum["required"], E.pidnum["optional"])
    out = []
    for s in op["specs"]:
        obj = fx.find(s["oid"]) if s["oid"] != [8, 4194303] else fx.devobj
        els = []
        for r in s["refs"]:
            todo = []
            if r["pid"] in sels and obj is not None:
                for name, p in obj._properties.items():
                    if name == "propertyList" or (r["pid"] == E.pidnum["required"] and p.optional) \
                            or (r["pid"] == E.pidnum["optional"] and not p.optional):
                        continue
                    todo.append((E.pidnum[name], True))
            else:
                todo.append((r["pid"], False))
            for pid, from_sel in todo:
                if pid in sels and obj is None:
                    single = {"r": "error", "cls": "object", "code": "unknownObject"}
                else:
                    single = rp(E, fx, s["oid"], pid, r["idx"])
                if single.get("r") == "ack":
                    els.append({"pid": pid, "idx": r["idx"], "val": single["hex"]})
                elif single.get("r") == "error":
                    if from_sel and single.get("code") == "unknownProperty":
                        continue
                    els.append({"pid": pid, "idx": r["idx"], "err": [single["cls"], single["code"]]})
                else:
                    return None
        out.append({"oid": s["oid"], "els": els})
    return out


def oracle_rpm(ctx, E, fx, case, op, rep):
    """rpm_equals_rp: every element is what ReadProperty answers for the same reference"""
    def bad(kind, what, **kw):
        ctx.fail(kind, case, what, op=op, **kw)
    vol = {E.pidnum[n] for n in VOLATILE}
    kind = rep.get("r")
    if kind == "abort" and rep.get("reason") == 11:
        # apdu-too-long: legitimate when — and only when — the answer does not fit what the client
        # accepts (MAX_SEGMENTS segments of MAX_APDU octets)
        want = expected_rpm_results(E, fx, op)
        n = None if want is None else rpm_ack_len(E, want)
        if n is not None and not answer_fits(n):
            ctx.count("rpm-too-long", ("abort", 11))
            return
        return bad("no-answer", "ReadPropertyMultiple aborted with apdu-too-long although the answer (%s octets) "
                   "fits %d segments of %d octets" % (n, MAX_SEGMENTS, MAX_APDU))
    if kind in ("none", "abort") or kind.startswith("python:"):
        return bad("no-answer", "ReadPropertyMultiple got %r" % (rep,))
    if kind != "ack":
        # the whole request failed: some referenced read must fail the same way
        singles = []
        for s in op["specs"]:
            for r in s["refs"]:
                if r["pid"] in (E.pidnum["all"], E.pidnum["required"], E.pidnum["optional"]):
                    obj = fx.find(s["oid"]) if s["oid"] != [8, 4194303] else fx.devobj
                    for name in (obj._properties if obj is not None else []):
                        singles.append(rp(E, fx, s["oid"], E.pidnum[name], r["idx"]))
                else:
                    singles.append(rp(E, fx, s["oid"], r["pid"], r["idx"]))
        if not any(x.get("r") == rep.get("r") and x.get("code") == rep.get("code") and x.get("reason") == rep.get("reason")
                   for x in singles):
            bad("rpm-equals-rp", "whole request answered %r but no single read does" % (rep,))
        return
    if len(rep["res"]) != len(op["specs"]):
        return bad("rpm-equals-rp", "%d results for %d specifications" % (len(rep["res"]), len(op["specs"])))
    for s, res in zip(op["specs"], rep["res"]):
        obj = fx.find(s["oid"]) if s["oid"] != [8, 4194303] else fx.devobj
        els = list(res["els"])
        pos = 0
        for r in s["refs"]:
            sel = r["pid"] in (E.pidnum["all"], E.pidnum["required"], E.pidnum["optional"])
            if sel and obj is not None:
                # expected: the properties of the table under the selector that ReadProperty finds
                want = []
                for name, p in obj._properties.items():
                    if name == "propertyList":
                        continue
                    if r["pid"] == E.pidnum["required"] and p.optional:
                        continue
                    if r["pid"] == E.pidnum["optional"] and not p.optional:
                        continue
                    single = rp(E, fx, s["oid"], E.pidnum[name], r["idx"])
                    if is_err(single, "property", "unknownProperty"):
                        continue
                    want.append((E.pidnum[name], single))
                got = els[pos:pos + len(want)]
                pos += len(want)
                if [e["pid"] for e in got] != [w[0] for w in want]:
                    bad("rpm-selector", "selector %d lists %r, ReadProperty finds %r" % (
                        r["pid"], [e["pid"] for e in got], [w[0] for w in want]))
                    return
                pairs = [(e, w[1]) for e, w in zip(got, want)]
            else:
                if pos >= len(els):
                    return bad("rpm-equals-rp", "missing element for %r" % (r,))
                e = els[pos]
                pos += 1
                if e["pid"] != r["pid"] or e["idx"] != r["idx"]:
                    return bad("rpm-equals-rp", "element %r does not echo reference %r" % (e, r))
                if sel:
                    single = {"r": "error", "cls": "object", "code": "unknownObject"}
                else:
                    single = rp(E, fx, s["oid"], r["pid"], r["idx"])
                pairs = [(e, single)]
            for e, single in pairs:
                if e["pid"] in vol:
                    continue
                if "val" in e:
                    ok = single.get("r") == "ack" and single.get("hex") == e["val"]
                else:
                    ok = single.get("r") == "error" and [single.get("cls"), single.get("code")] == e["err"]
                if not ok:
                    bad("rpm-equals-rp", "element %r but ReadProperty answers %r" % (e, single))
        if pos != len(els):
            bad("rpm-equals-rp", "%d surplus elements" % (len(els) - pos))


# ------------------------------------------------------------------ one scenario

def signature(E, fx_facts, op, rep):
    def idxc(i, n):
        return "none" if i is None else "0" if i == 0 else "in" if i <= n else "n+1" if i == n + 1 else "big"
    code = rep.get("code") or rep.get("reason") or ""
    if op["op"] == "rpm":
        sels = sorted({r["pid"] for s in op["specs"] for r in s["refs"] if r["pid"] in (8, 80, 105)})
        nerr = sum(1 for res in rep.get("res", []) for e in res["els"] if "err" in e)
        return ("rpm", tuple(sels), min(nerr, 3), rep.get("r"), code)
    f = fx_facts
    dk = "-"
    if f.get("prop") is not None:
        dk = kind_key(E.sch.prop(f["prop"])) + (f["custom"],)
    n = f.get("len", 0)
    if op["op"] == "rp":
        return ("rp", dk, idxc(op["idx"], n), rep.get("r"), code)
    pc = "none" if op["prio"] is None else "in" if 1 <= op["prio"] <= 16 else "out"
    vc = (op.get("vclass") or "") + ("/charset" if op.get("canon") else "")
    return ("wp", dk, idxc(op["idx"], n), vc, pc if f.get("is_cmd") else "-", rep.get("r"), code)


def run_scenario(ctx, E, fixture_spec, ops=None, rng=None, n_ops=0, stream="e2e", check_every=1):
    """build the device, run the requests on the real stacks (oracle inline) and —
    as one batch — on the model driver; compare replies and state digests"""
    fx = Fixture(E, fixture_spec)
    setup = fx.model_setup()
    impl_replies = []
    model_reqs = list(setup)
    done_ops = []
    sigs = []
    # set-up replies: reset ok, add -> ids, snap -> dump
    impl_setup = [{"r": "ok"}] + [{"r": "ok", "ids": ids} for ids in fx.expected_ids] + [{"r": "ok", "objs": fx.dump()}]
    source = ops if ops is not None else gen_ops(E, fx, rng, n_ops)
    case = {"fixture": fixture_spec, "ops": done_ops}
    nfail0 = len(ctx.failures)
    for op in source:
        done_ops.append(op)
        f = facts(E, fx, op) if op["op"] != "rpm" else {}
        if op["op"] == "wp":
            wire = wire_of(E, fx, op)
            # (only writes change the device: the dump taken after the previous write is still valid)
            before = getattr(fx, "last_dump", None) or fx.dump()
            raw, rep = run_op(E, fx, op)
            logged = list(E.vt.errors)
            after = fx.last_dump = fx.dump()
            E.vt.errors[:] = logged
            oracle_write(ctx, E, fx, case_copy(case), op, f, rep, before, after, wire)
            model_reqs.append({"op": "wp", "oid": op["oid"], "pid": op["pid"], "idx": op["idx"], "val": wire, "prio": op["prio"]})
            impl_replies.append(rep)
            model_reqs.append({"op": "snap"})
            impl_replies.append({"r": "ok", "objs": after})
            sigs.append(signature(E, f, op, rep)); sigs.append(None)
        elif op["op"] == "rp":
            raw, rep = run_op(E, fx, op)
            oracle_read(ctx, E, fx, case_copy(case), op, f, rep)
            model_reqs.append({"op": "rp", "oid": op["oid"], "pid": op["pid"], "idx": op["idx"]})
            impl_replies.append(mask_volatile(E, op, rep))
            sigs.append(signature(E, f, op, rep))
        else:
            raw, rep = run_op(E, fx, op)
            oracle_rpm(ctx, E, fx, case_copy(case), op, rep)
            model_reqs.append({"op": "rpm", "specs": op["specs"]})
            impl_replies.append(mask_volatile(E, op, rep))
            sigs.append(signature(E, f, op, rep))
        if len(ctx.failures) > nfail0 + 3:
            break
    return {"case": {"fixture": fixture_spec, "ops": done_ops}, "setup_n": len(setup), "model_reqs": model_reqs,
            "impl": impl_setup + impl_replies, "sigs": [None] * len(setup) + sigs}


def case_copy(case):
    return {"fixture": case["fixture"], "ops": list(case["ops"])}


def compare_with_model(ctx, stream, results):
    """one driver run for a batch of scenarios"""
    if not ctx.model_ok:
        for r in results:
            ctx.count(stream, n=len(r["impl"]))
        return
    reqs = [q for r in results for q in r["model_reqs"]]
    replies = core.Driver("drv_c15").ask(reqs)
    pos = 0
    vol = None
    for r in results:
        n = len(r["model_reqs"])
        mine = replies[pos:pos + n]
        pos += n
        cases, impl, model = [], [], []
        for i, (q, a, b, s) in enumerate(zip(r["model_reqs"], r["impl"], mine, r["sigs"])):
            b = mask_model(q, b)
            # a disagreement is reported with the scenario up to this request
            cases.append({"req": q if q["op"] not in ("add",) else {"op": "add", "oid": q["oid"]},
                          "scenario": {"fixture": r["case"]["fixture"], "ops": r["case"]["ops"]} if canon_differs(a, b) else None})
            impl.append(a)
            model.append(b)
        sig_iter = iter(r["sigs"])
        sig_list = r["sigs"]
        idx = {"i": -1}

        def sig(c, m, _l=sig_list, _idx=idx):
            _idx["i"] += 1
            s = _l[_idx["i"]]
            return s if s is not None else (c["req"]["op"],)
        ctx.compare_stream(stream, cases, impl, model, sig=sig)


def canon_differs(a, b):
    return core.canon(a) != core.canon(core.strip_br(b))


def mask_model(q, b):
    E = env()
    vol = {E.pidnum[n] for n in VOLATILE}
    if q["op"] == "rp" and q["pid"] in vol and b.get("r") == "ack":
        return dict(b, hex="volatile")
    if q["op"] == "rpm" and b.get("r") == "ack":
        # the transport below the handler: an answer that does not fit the client's limits is
        # aborted by the server's segmentation machine (apdu-too-long) — exactly then
        if not answer_fits(rpm_ack_len(E, b["res"])):
            return {"r": "abort", "reason": 11}
        for res in b["res"]:
            for e in res["els"]:
                if e["pid"] in vol and "val" in e:
                    e["val"] = "volatile"
    return b


# ------------------------------------------------------------------ shards, run, search, replay

def type_rotation(E, rng, k, n):
    """n type lists of size k that together cover every registered type"""
    names = sorted(E.rows)
    rng.shuffle(names)
    out = []
    pos = 0
    for _ in range(n):
        pick = [names[(pos + j) % len(names)] for j in range(k)]
        pos += k
        out.append(pick)
    return out


def shard(ctx, spec):
    E = env()
    label, n_scen, k_types, n_ops = spec
    THOROUGH[0] = 0 if ctx.quick else 1
    rng = ctx.sub_rng("c15/" + label)
    results = []
    for types in type_rotation(E, rng, k_types, n_scen):
        fixture = gen_fixture(E, rng, types)
        results.append(run_scenario(ctx, E, fixture, rng=rng, n_ops=n_ops))
    compare_with_model(ctx, "e2e", results)
    for r in results[:1]:
        ops = r["case"]["ops"]
        for op in ops[:2]:
            ctx.sample({"stream": "e2e", "op": {k: v for k, v in op.items() if k != "tags"} if len(str(op)) > 300 else op})


def run_corpus(ctx):
    E = env()
    d = os.path.join(VERIF, "corpus", "C15")
    results = []
    if os.path.isdir(d):
        for fn in sorted(os.listdir(d)):
            if fn.endswith(".json"):
                c = json.load(open(os.path.join(d, fn)))
                results.append(run_scenario(ctx, E, c["fixture"], ops=c["ops"], stream="corpus"))
    if results:
        compare_with_model(ctx, "corpus", results)


def run(ctx):
    run_corpus(ctx)
    if ctx.quick:
        specs = [("q%d" % i, 2, 8, 110) for i in range(16)]
    else:
        specs = [("t%d" % i, 5, 10, 300) for i in range(48)]
    core.run_shards(ctx, "harness.c15", "shard", specs)
    ctx.exhaustive = False


def search(ctx):
    """focused failing-input search: more and longer scenarios (the oracle runs inline)"""
    specs = [("s%d" % i, 2, 8, 120) for i in range(16)]
    sub = core.Ctx(ctx.prop, ctx.tier, ctx.seed + 7919)
    sub.model_ok = False
    core.run_shards(sub, "harness.c15", "shard", specs)
    ctx.failures.extend(sub.failures)


def replay(ctx, payload):
    E = env()
    rec = payload.get("failure") or (payload.get("correspondence_disagreements") or [{}])[0]
    case = rec.get("case") or {}
    scen = case if "fixture" in case else case.get("scenario")
    if not scen:
        raise core.Infra("nothing to replay")
    res = run_scenario(ctx, E, scen["fixture"], ops=scen["ops"], stream="replay")
    compare_with_model(ctx, "replay", [res])
