"""
C04 evaluated end-to-end on complete real stacks (implementation side).
Scenarios: request/response sizes on both sides of every segmentation boundary,
the four segmentation-support settings per side, windows 1..8, retries 0..3,
server behaviours (ack / simple / error / reject / abort / silent), direct and
IOCB submission, and fault placements: none, every single fault, every pair of
faults (thorough: all pairs on short transactions, sampled on long ones), and
random fault sequences that end in silence.
Oracle: harness.e2e_oracle.check_c04 (exactly one outcome, allowed kind, bounded
virtual time, no transaction / timer / queue residue, no late frame).
"""
import itertools
from . import core
from . import e2e_oracle as O

ACTIONS = ["drop", "dup", ["delay", 0.4], ["delay", 7.0]]


def base_scenarios(ctx, rng):
    out = []
    apdus = [50, 206] if ctx.quick else [50, 128, 206, 480]
    for apdu in apdus:
        sizes = [(0, 0), (apdu - 10, apdu - 10), (apdu + 5, 10), (10, apdu + 5), (2 * apdu + 3, 2 * apdu + 3)]
        for clen, slen in sizes:
            for mode in (["ack"] if ctx.quick else ["ack", "error"]):
                out.append({"clen": clen, "slen": slen, "mode": mode,
                            "a": {"max_apdu": apdu, "max_segs": 64, "seg_timeout": 1500},
                            "b": {"max_apdu": apdu, "max_segs": 64, "seg_timeout": 1500}})
    # segmentation support x both sides, around one boundary
    for sa, sb in itertools.product(O.SEG_SUPPORT, repeat=2):
        for clen, slen in ((10, 10), (300, 10), (10, 300)):
            out.append({"clen": clen, "slen": slen,
                        "a": {"max_apdu": 128, "seg": sa, "max_segs": 16, "seg_timeout": 1500},
                        "b": {"max_apdu": 128, "seg": sb, "max_segs": 16, "seg_timeout": 1500}})
    # windows, retries
    for w in ([1, 2, 8] if ctx.quick else range(1, 9)):
        out.append({"clen": 400, "slen": 400,
                    "a": {"max_apdu": 50, "window": w, "max_segs": 64, "seg_timeout": 1500},
                    "b": {"max_apdu": 50, "window": 9 - w, "max_segs": 64, "seg_timeout": 1500}})
    for r in range(4):
        out.append({"clen": 10, "slen": 200, "a": {"max_apdu": 128, "retries": r, "seg_timeout": 1500},
                    "b": {"max_apdu": 128, "retries": r, "seg_timeout": 1500}})
    # server behaviours
    for mode in ("simple", "error", "reject", "abort", "silent"):
        out.append({"clen": 10, "slen": 0, "mode": mode, "a": {"max_apdu": 128}, "b": {"max_apdu": 128}})
        out.append({"clen": 300, "slen": 0, "mode": mode, "a": {"max_apdu": 128, "seg_timeout": 1500},
                    "b": {"max_apdu": 128, "seg_timeout": 1500}})
    # IOCB submission, several queued requests to one destination
    for n in (1, 3):
        out.append({"clen": 10, "slen": 300, "iocb": True, "requests": n,
                    "a": {"max_apdu": 128, "seg_timeout": 1500}, "b": {"max_apdu": 128, "seg_timeout": 1500}})
    # several requests to several peers in flight at once, some peers silent, with long-lived background
    # timers that are cancelled and re-armed meanwhile (device applications keep such timers: COV lifetimes,
    # communication-control durations, schedules)
    for k, (timers, rearm) in enumerate([
            ([1000.0, 2000.0, 1500.0], [(1.0, 0, 3000.0)]),
            ([500.0, 1000.0, 2000.0, 1500.0, 800.0], [(0.5, 1, 2500.0), (2.0, 0, 900.0)]),
            ([100.0 * (j + 3) for j in range(9)], [(1.0, j, 5000.0 + j) for j in (0, 3, 4, 7)]),
            ([50.0, 60.0, 70.0, 80.0, 90.0, 100.0, 110.0], [(0.5, 3, 400.0), (1.5, 1, 500.0), (4.0, 5, 600.0)])]):
        for ret in ([1] if ctx.quick else [0, 1, 3]):
            out.append({"clen": 10, "slen": 10, "mode": "silent" if k % 2 == 0 else "ack",
                        "a": {"max_apdu": 128, "retries": ret}, "b": {"max_apdu": 128},
                        "peers": [{"devid": 30, "silent": True, "max_apdu": 128}, {"devid": 40, "silent": True, "max_apdu": 128},
                                  {"devid": 50, "silent": k % 2 == 1, "max_apdu": 128}],
                        "extra_requests": [[30, 0], [40, 0], [50, 0.5]],
                        "background": {"timers": timers, "rearm": rearm, "horizon": 200.0}, "requests": 1})
    # IOCB submission where the completion callback itself submits the next request
    for to in ("same", 30):
        for cnt in (1, 2):
            out.append({"clen": 10, "slen": 30, "iocb": True, "requests": 1, "reenter": {"to": to, "count": cnt},
                        "a": {"max_apdu": 128}, "b": {"max_apdu": 128},
                        "peers": [{"devid": 30, "max_apdu": 128}]})
    for i, sc in enumerate(out):
        sc.setdefault("know", i % 2 == 0)
    return out


def shard(ctx, spec):
    rng = ctx.sub_rng("c04/%d" % spec["index"])
    for sc in spec["scenarios"]:
        r0 = O.run_scenario(sc)
        judge(ctx, sc, r0)
        nf = len(r0["frames"])
        if sc.get("requests", 1) > 1 or sc.get("peers") or sc.get("reenter"):
            continue
        # every single fault
        for i in range(nf):
            for act in ACTIONS:
                s1 = dict(sc, faults={str(i): act})
                judge(ctx, s1, O.run_scenario(s1))
        # pairs of faults
        pairs = list(itertools.combinations(range(min(nf + 2, 14)), 2))
        if ctx.quick:
            pairs = rng.sample(pairs, min(len(pairs), 6))
        elif nf > 8:
            pairs = rng.sample(pairs, min(len(pairs), 40))
        for i, j in pairs:
            for a1, a2 in ([("drop", "drop"), ("drop", "dup")] if ctx.quick else
                           [("drop", "drop"), ("drop", "dup"), ("dup", ["delay", 0.4]), (["delay", 7.0], "drop")]):
                s2 = dict(sc, faults={str(i): a1, str(j): a2})
                judge(ctx, s2, O.run_scenario(s2))
        # persistent selective loss: one segment of the window never gets through while the others do
        # (negative acks keep coming: the retry budget must still end the transaction)
        if nf >= 6:
            for key in (["always:10:0:1", "always:10:0:2", "always:20:3:1", "always:20:3:2"] if not ctx.quick
                        else ["always:10:0:1", "always:20:3:1"]):
                s4 = dict(sc, faults={key: "drop"})
                judge(ctx, s4, O.run_scenario(s4), label="persistent-" + key)
        # random long fault sequences ending in silence (everything from frame k on is dropped)
        for _ in range(2 if ctx.quick else 10):
            k = rng.randrange(0, nf + 3)
            faults = {str(i): rng.choice(["ok", "ok", "drop", "dup", ["delay", rng.choice([0.1, 1.0, 4.0])]])
                      for i in range(k)}
            faults = {i: a for i, a in faults.items() if a != "ok"}
            faults.update({str(i): "drop" for i in range(k, k + 400)})
            s3 = dict(sc, faults=faults)
            judge(ctx, s3, O.run_scenario(s3), label="silence-from-%d" % k)


def gen_scripts(ctx, rng, n):
    """random interleavings of requests to answering/silent peers with housekeeping-timer operations"""
    out = []
    for _ in range(n):
        peers = [30, 40, 50, 60, 70][: rng.randrange(3, 6)]
        silent = [p for p in peers if rng.random() < 0.6]
        script, nbg = [], 0
        deep = rng.random() < 0.5
        for _k in range(rng.randrange(6, 16) if not deep else rng.randrange(14, 30)):
            r = rng.random()
            if r < (0.35 if not deep else 0.2):
                q = rng.random()
                script.append(["req" if q < 0.8 else "reqbig" if q < 0.9 else "unconf", rng.choice(peers)])
            elif r < 0.6:
                # housekeeping timers with many different (also decreasing) due times: deep, irregular heaps
                script.append(["bg", float(rng.choice([900, 1000, 1004, 1005, 1008, 2000, 500 + nbg, rng.randrange(100, 5000)]))]); nbg += 1
            elif r < 0.78 and nbg:
                script.append(["cancel", rng.randrange(nbg)])
            elif r < 0.9 and nbg:
                script.append(["rearm", rng.randrange(nbg), float(rng.choice([800, 1001, 1500, 3000, rng.randrange(100, 5000)]))])
            else:
                script.append(["run", rng.choice([0.0, 0.0, 0.1, 1.0, 2.9, 3.0, 3.1])])
        # one request per peer at most while another to the same peer is outstanding is fine (invoke ids differ)
        iocb = rng.random() < 0.4
        slow = [p_ for p_ in peers if p_ not in silent and rng.random() < 0.4]
        netopt = {}
        routed = {}
        r_ = rng.random()
        if r_ < 0.15:
            netopt = {"net_number": rng.choice([1, 7, 65534]), "spell": rng.choice(["plain", "net-fresh", "net-reuse"])}
        elif r_ < 0.3:
            routed = {"routed": True, "route_aware": rng.random() < 0.5}
        out.append({"peers": peers, "silent": silent, "slow": slow, "script": script,
                    "a": dict({"max_apdu": 128, "retries": rng.choice([0, 1, 1, 3]),
                               "seg": rng.choice(["segmentedBoth", "noSegmentation", "segmentedReceive"])}, **netopt), "iocb": iocb,
                    # requests issued from inside completion callbacks (IOCB only)
                    "chain": [rng.choice(peers) for _ in range(rng.randrange(0, 4))] if iocb else []})
        out[-1].update(routed)
    # three IOCBs for one peer, the second ends at once in a local abort (too long, client cannot segment)
    out.append({"peers": [30, 40], "silent": [], "iocb": True, "a": {"max_apdu": 128, "retries": 1, "seg": "noSegmentation"},
                "script": [["req", 30], ["reqbig", 30], ["req", 30], ["req", 30], ["req", 40]]})
    # an unconfirmed unicast request through the IOCB interface while a confirmed one is outstanding
    out.append({"peers": [30, 40], "silent": [], "slow": [30], "iocb": True, "a": {"max_apdu": 128, "retries": 1},
                "script": [["req", 30], ["unconf", 30], ["req", 30], ["run", 0.0], ["unconf", 30], ["req", 30]]})
    # a server application that answers later, two requests of one service in flight (also from two clients' worth of ids)
    for iocb in (False, True):
        out.append({"peers": [30, 40], "silent": [], "slow": [30, 40], "iocb": iocb, "a": {"max_apdu": 128, "retries": 1},
                    "script": [["req", 30], ["req", 30], ["req", 40], ["req", 30], ["run", 1.0], ["req", 30], ["req", 30]]})
    # A completes, its callback issues B, then C goes to the same peer before B is answered
    for silent in ([], [40]):
        out.append({"peers": [30, 40], "silent": silent, "iocb": True, "a": {"max_apdu": 128, "retries": 1},
                    "chain": [30, 30], "script": [["req", 30], ["run", 0.0], ["req", 30], ["req", 40], ["run", 0.0], ["req", 30]]})
    # the network layer knows the number of its network and the application writes its peers WITH that number
    # ("1:30" on network 1; a fresh Address per request, or one object reused): IOCB and direct
    for iocb in (False, True):
        for spell in ("plain", "net-fresh", "net-reuse"):
            out.append({"peers": [30, 40], "silent": [40], "iocb": iocb,
                        "a": {"max_apdu": 128, "retries": 1, "net_number": 1, "spell": spell},
                        "script": [["req", 30], ["req", 30], ["req", 40], ["run", 0.0], ["req", 30], ["unconf", 30], ["req", 30]]})
    # peers on another network behind a real router (cold router cache: the first request is parked until the
    # path is found); default settings and route_aware switched on; direct and IOCB
    for ra in (False, True):
        for iocb in (False, True):
            out.append({"peers": [30, 40], "silent": [40], "iocb": iocb, "routed": True, "route_aware": ra,
                        "a": {"max_apdu": 128, "retries": 1},
                        "script": [["req", 30], ["run", 0.0], ["req", 30], ["req", 40], ["run", 1.0], ["req", 30],
                                   ["reqbig", 30], ["run", 0.0], ["req", 30], ["unconf", 30], ["run", 20.0], ["req", 30], ["req", 30]]})
    # long histories on ONE stack: more than 256 (and more than 512) requests, so that every
    # per-stack counter (invoke id) wraps; answered at once, a few to a silent peer in between
    for iocb in (False, True):
        long = []
        for k in range(530):
            long.append(["req", 40 if k % 97 == 50 else 30])
            if k % 8 == 7:
                long.append(["run", 0.0])
        out.append({"peers": [30, 40], "silent": [40], "iocb": iocb, "a": {"max_apdu": 128, "retries": 0}, "script": long})
    # the directed interleaving: requests submitted between housekeeping-timer operations in one instant
    out.append({"peers": [30, 40, 50], "silent": [30, 40, 50], "a": {"max_apdu": 128, "retries": 1},
                "script": [["bg", 1000.0], ["req", 30], ["req", 40], ["bg", 1004.0], ["bg", 1005.0], ["req", 50],
                           ["cancel", 1], ["bg", 1008.0]]})
    return out


def shard_scripts(ctx, spec):
    for sc in spec["scripts"]:
        res = O.run_script(sc)
        nreq = len([o for o in sc["script"] if o[0] == "req"])
        ctx.count("c04-script", (min(nreq, 6), len(sc["silent"]), tuple(sorted(set(c[1] for c in res["conf"]))), bool(sc.get("iocb"))))
        for k, w in O.check_script(sc, res):
            ctx.fail(k, {"script_scenario": sc, "observed": {"conf": res["conf"], "sent": res["sent"], "residue": res["residue"]}}, w)
    if spec["scripts"]:
        ctx.sample({"script_scenario": spec["scripts"][0]})


def sig(sc, res):
    f = sc.get("faults", {})
    kinds = tuple(sorted(str(a if isinstance(a, str) else a[0]) for a in list(f.values())[:3]))
    seg = (sc.get("a", {}).get("seg", "B")[9:10], sc.get("b", {}).get("seg", "B")[9:10])
    shape = (sc.get("clen", 0) > sc.get("a", {}).get("max_apdu", 1024) - 10,
             sc.get("slen", 0) > sc.get("b", {}).get("max_apdu", 1024) - 10)
    outcome = tuple(c[1] for c in res["conf"])
    return (kinds if len(f) < 10 else ("silence",), seg, shape, sc.get("mode", "ack"), bool(sc.get("iocb")), outcome)


def judge(ctx, sc, res, label=None):
    ctx.count("c04-e2e", sig(sc, res))
    for k, w in O.check_c04(sc, res):
        small = dict(sc)
        if len(small.get("faults", {})) > 20:
            small["faults"] = {k2: v for k2, v in list(small["faults"].items())[:20]}
            small["faults_note"] = "every later frame dropped"
        ctx.fail(k, {"scenario": small, "observed": O.brief(res)}, w, n_faults=len(sc.get("faults", {})))
    if ctx.evaluations % 400 == 1:
        ctx.sample({"scenario": {k: v for k, v in sc.items() if k != "faults"},
                    "faults": dict(list(sc.get("faults", {}).items())[:4]), "outcome": O.brief(res)["conf"]})


def run_impl(ctx):
    rng = ctx.sub_rng("c04")
    scs = base_scenarios(ctx, rng)
    n = 16
    specs = [{"index": i, "scenarios": scs[i::n]} for i in range(n)]
    core.run_shards(ctx, "harness.c04_impl", "shard", specs)
    scripts = gen_scripts(ctx, rng, 3200 if ctx.quick else 40000)
    core.run_shards(ctx, "harness.c04_impl", "shard_scripts",
                    [{"scripts": scripts[i::16]} for i in range(16)])


def run_app_scripts(ctx, n_quick=1200, n_thorough=12000, label="app"):
    """the IOCB/application-level script scenarios alone (used by C11 for the application-level clauses:
    every request's reply reaches the request it answers, also with requests issued from callbacks)"""
    rng = ctx.sub_rng("c04/scripts/" + label)
    scripts = gen_scripts(ctx, rng, n_quick if ctx.quick else n_thorough)
    # half through the IOCB interface (requests to one peer one at a time, callbacks re-entering), half through
    # Application.request directly (several requests to one peer in flight at once)
    scripts = [dict(sc, iocb=True, chain=sc.get("chain") or [rng.choice(sc["peers"]) for _ in range(rng.randrange(0, 4))])
               if (i % 2 == 0 or sc.get("iocb")) else dict(sc, iocb=False, chain=[])
               for i, sc in enumerate(scripts)]
    core.run_shards(ctx, "harness.c04_impl", "shard_scripts", [{"scripts": scripts[i::16]} for i in range(16)])


def replay_impl(ctx, case):
    if "script_scenario" in case:
        sc = case["script_scenario"]
        res = O.run_script(sc)
        for k, w in O.check_script(sc, res):
            ctx.fail(k, case, w)
        ctx.count("replay", "script")
        return
    sc = case["scenario"]
    res = O.run_scenario(sc)
    judge(ctx, sc, res)
