"""
C04 evaluated end-to-end on complete real stacks (implementation side).
Scenarios: request/response sizes on both sides of every segmentation boundary,
the four segmentation-support settings per side, windows 1..8, retries 0..3,
server behaviours (ack / simple / error / reject / abort / silent), direct and
IOCB submission, and fault placements: none, every single fault, every pair of
faults (thorough: all pairs on short transactions, sampled on long ones), and
random fault sequences that end in silence.
Oracle: harness.e2e_oracle.check_c04 (exactly one outcome, allowed kind, bounded
virtual time, no transaction / timer / queue residue, no late frame).
"""
import itertools
from . import core
from . import e2e_oracle as O

ACTIONS = ["drop", "dup", ["delay", 0.4], ["delay", 7.0]]


def base_scenarios(ctx, rng):
    out = []
    apdus = [50, 206] if ctx.quick else [50, 128, 206, 480]
    for apdu in apdus:
        sizes = [(0, 0), (apdu - 10, apdu - 10), (apdu + 5, 10), (10, apdu + 5), (2 * apdu + 3, 2 * apdu + 3)]
        for clen, slen in sizes:
            for mode in (["ack"] if ctx.quick else ["ack", "error"]):
                out.append({"clen": clen, "slen": slen, "mode": mode,
                            "a": {"max_apdu": apdu, "max_segs": 64, "seg_timeout": 1500},
                            "b": {"max_apdu": apdu, "max_segs": 64, "seg_timeout": 1500}})
    # segmentation support x both sides, around one boundary
    for sa, sb in itertools.product(O.SEG_SUPPORT, repeat=2):
        for clen, slen in ((10, 10), (300, 10), (10, 300)):
            out.append({"clen": clen, "slen": slen,
                        "a": {"max_apdu": 128, "seg": sa, "max_segs": 16, "seg_timeout": 1500},
                        "b": {"max_apdu": 128, "seg": sb, "max_segs": 16, "seg_timeout": 1500}})
    # windows, retries
    for w in ([1, 2, 8] if ctx.quick else range(1, 9)):
        out.append({"clen": 400, "slen": 400,
                    "a": {"max_apdu": 50, "window": w, "max_segs": 64, "seg_timeout": 1500},
                    "b": {"max_apdu": 50, "window": 9 - w, "max_segs": 64, "seg_timeout": 1500}})
    for r in range(4):
        out.append({"clen": 10, "slen": 200, "a": {"max_apdu": 128, "retries": r, "seg_timeout": 1500},
                    "b": {"max_apdu": 128, "retries": r, "seg_timeout": 1500}})
    # server behaviours
    for mode in ("simple", "error", "reject", "abort", "silent"):
        out.append({"clen": 10, "slen": 0, "mode": mode, "a": {"max_apdu": 128}, "b": {"max_apdu": 128}})
        out.append({"clen": 300, "slen": 0, "mode": mode, "a": {"max_apdu": 128, "seg_timeout": 1500},
                    "b": {"max_apdu": 128, "seg_timeout": 1500}})
    # IOCB submission, several queued requests to one destination
    for n in (1, 3):
        out.append({"clen": 10, "slen": 300, "iocb": True, "requests": n,
                    "a": {"max_apdu": 128, "seg_timeout": 1500}, "b": {"max_apdu": 128, "seg_timeout": 1500}})
    for i, sc in enumerate(out):
        sc.setdefault("know", i % 2 == 0)
    return out


def shard(ctx, spec):
    rng = ctx.sub_rng("c04/%d" % spec["index"])
    for sc in spec["scenarios"]:
        r0 = O.run_scenario(sc)
        judge(ctx, sc, r0)
        nf = len(r0["frames"])
        if sc.get("requests", 1) > 1:
            continue
        # every single fault
        for i in range(nf):
            for act in ACTIONS:
                s1 = dict(sc, faults={str(i): act})
                judge(ctx, s1, O.run_scenario(s1))
        # pairs of faults
        pairs = list(itertools.combinations(range(min(nf + 2, 14)), 2))
        if ctx.quick:
            pairs = rng.sample(pairs, min(len(pairs), 6))
        elif nf > 8:
            pairs = rng.sample(pairs, min(len(pairs), 40))
        for i, j in pairs:
            for a1, a2 in ([("drop", "drop"), ("drop", "dup")] if ctx.quick else
                           [("drop", "drop"), ("drop", "dup"), ("dup", ["delay", 0.4]), (["delay", 7.0], "drop")]):
                s2 = dict(sc, faults={str(i): a1, str(j): a2})
                judge(ctx, s2, O.run_scenario(s2))
        # persistent selective loss: one segment of the window never gets through while the others do
        # (negative acks keep coming: the retry budget must still end the transaction)
        if nf >= 6:
            for key in (["always:10:0:1", "always:10:0:2", "always:20:3:1", "always:20:3:2"] if not ctx.quick
                        else ["always:10:0:1", "always:20:3:1"]):
                s4 = dict(sc, faults={key: "drop"})
                judge(ctx, s4, O.run_scenario(s4), label="persistent-" + key)
        # random long fault sequences ending in silence (everything from frame k on is dropped)
        for _ in range(2 if ctx.quick else 10):
            k = rng.randrange(0, nf + 3)
            faults = {str(i): rng.choice(["ok", "ok", "drop", "dup", ["delay", rng.choice([0.1, 1.0, 4.0])]])
                      for i in range(k)}
            faults = {i: a for i, a in faults.items() if a != "ok"}
            faults.update({str(i): "drop" for i in range(k, k + 400)})
            s3 = dict(sc, faults=faults)
            judge(ctx, s3, O.run_scenario(s3), label="silence-from-%d" % k)


def sig(sc, res):
    f = sc.get("faults", {})
    kinds = tuple(sorted(str(a if isinstance(a, str) else a[0]) for a in list(f.values())[:3]))
    seg = (sc.get("a", {}).get("seg", "B")[9:10], sc.get("b", {}).get("seg", "B")[9:10])
    shape = (sc.get("clen", 0) > sc.get("a", {}).get("max_apdu", 1024) - 10,
             sc.get("slen", 0) > sc.get("b", {}).get("max_apdu", 1024) - 10)
    outcome = tuple(c[1] for c in res["conf"])
    return (kinds if len(f) < 10 else ("silence",), seg, shape, sc.get("mode", "ack"), bool(sc.get("iocb")), outcome)


def judge(ctx, sc, res, label=None):
    ctx.count("c04-e2e", sig(sc, res))
    for k, w in O.check_c04(sc, res):
        small = dict(sc)
        if len(small.get("faults", {})) > 20:
            small["faults"] = {k2: v for k2, v in list(small["faults"].items())[:20]}
            small["faults_note"] = "every later frame dropped"
        ctx.fail(k, {"scenario": small, "observed": O.brief(res)}, w, n_faults=len(sc.get("faults", {})))
    if ctx.evaluations % 400 == 1:
        ctx.sample({"scenario": {k: v for k, v in sc.items() if k != "faults"},
                    "faults": dict(list(sc.get("faults", {}).items())[:4]), "outcome": O.brief(res)["conf"]})


def run_impl(ctx):
    rng = ctx.sub_rng("c04")
    scs = base_scenarios(ctx, rng)
    n = 16
    specs = [{"index": i, "scenarios": scs[i::n]} for i in range(n)]
    core.run_shards(ctx, "harness.c04_impl", "shard", specs)


def replay_impl(ctx, case):
    sc = case["scenario"]
    res = O.run_scenario(sc)
    judge(ctx, sc, res)
