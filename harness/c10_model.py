"""
C10, model side — correspondence between the Lean receive pipeline
(lean/BacVerif/Model/Device.lean through lean/Drv/C10.lean) and a REAL device stack.

The SAME batches the implementation streams of harness/c10.py inject (every template
mutation, random frames, interleavings; `c10.batches`) plus constructed histories
(`shapes`: segmented requests, segmented responses with their segment acks, routed
sources, global-broadcast DADR, every network message type) are fed to

  * an instrumented real device (no source hooks: instance attributes of the harness'
    own objects are wrapped) which reports, PER DATAGRAM, the frames the station put on
    the wire while that datagram was being processed, whether the application was asked
    and what it answered (its answer is INPUT to the model: the application is abstract),
    or that the ASAP answered by itself; after the batch the server transaction list;
    after quiescence the frames sent by timers and the residue;
  * the model driver, as one batch per shard.

Compared per datagram: the frames (destination + every octet, network priority bits
masked), whether the application was consulted; per batch: the transaction list
(peer, invoke id, state) before and after quiescence, frames sent during quiescence.
A Python exception the model did not predict shows as a missing/different reply.
Tolerance (by design, see notes/C10.md): when the model's decoder accepts a body
(primitive leaves are checked for tag/length only) and the real decoder rejects it, the
ASAP's reject is taken as the application's answer ("leaf-reject", counted).
"""
import collections
from . import core
from . import c10 as P
from . import c10_impl as C

SEG_NAMES = ['noSegmentation', 'segmentedTransmit', 'segmentedReceive', 'segmentedBoth']
DCC = {'enable': 0, 'disable': 1, 'disableInitiation': 2}
PEER_HEX = "%02x" % C.PEER


def dcc_code(v):
    """a value outside the three names (an undefined enumeration stored as a number) passes every gate
    of StateMachineAccessPoint like 'enable' does"""
    return DCC.get(v, 0)


# ------------------------------------------------------------------ instrumented device

class Rig:
    """a c10_impl Device with per-datagram observation"""

    def __init__(self, Device=None, dev=None):
        from bacpypes.apdu import (ConfirmedRequestPDU, SimpleAckPDU, ComplexAckPDU, ErrorPDU, RejectPDU,
                                   AbortPDU, RejectReason, AbortReason)
        from bacpypes.errors import RejectException, AbortException
        self.dev = dev = dev if dev is not None else Device()
        self.cur = None          # index of the datagram being processed
        self.n = 0
        self.sent = []           # (cur, dst hex|None, octets)
        self.entries = []        # (cur, entry)
        self.late = []           # answers the application gave outside any datagram's processing
        self.learns = []         # (cur, station, device information) the application put into its cache
        self.in_app = False
        rig = self
        adapter = dev.nsap.local_adapter
        o_conf = adapter.confirmation

        def confirmation(pdu):
            rig.cur = rig.n
            rig.n += 1
            try:
                o_conf(pdu)
            finally:
                rig.cur = None
        adapter.confirmation = confirmation

        o_ind = dev.node.indication

        def indication(pdu):
            d = pdu.pduDestination
            dst = None if d.addrType == d.localBroadcastAddr else bytes(d.addrAddr).hex()
            rig.sent.append((rig.cur, dst, bytes(pdu.pduData)))
            o_ind(pdu)
        dev.node.indication = indication

        def num(table, v):
            return v if isinstance(v, int) else table.enumerations[v]

        o_sapreq = dev.asap.sap_request

        def sap_request(xpdu):
            if not isinstance(xpdu, ConfirmedRequestPDU):
                return o_sapreq(xpdu)
            before = rig.dcc_snapshot()
            mark = len(rig.entries)
            rig.in_app = True
            try:
                o_sapreq(xpdu)
            except RejectException as e:
                rig.entries.append((rig.cur, {"k": "reject", "r": num(RejectReason, e.rejectReason)}))
                raise
            except AbortException as e:
                rig.entries.append((rig.cur, {"k": "abort", "srv": False, "r": num(AbortReason, e.abortReason)}))
                raise
            finally:
                rig.in_app = False
                if len(rig.entries) == mark:
                    rig.entries.append((rig.cur, {"k": "silent"}))
                after = rig.dcc_snapshot()
                if after != before and rig.entries[mark][1].get("k") == "simple":
                    # an ACCEPTED DeviceCommunicationControl (acknowledged): the gate, and how far ahead the re-enable
                    # task is.  A refused request must change nothing: whatever it did is NOT told to the model.
                    rig.entries[mark][1]["dcc"] = dcc_code(after[0])
                    rig.entries[mark][1]["dccus"] = after[2]
        dev.asap.sap_request = sap_request

        o_sapconf = dev.smap.sap_confirmation

        def sap_confirmation(apdu):
            if isinstance(apdu, SimpleAckPDU):
                e = {"k": "simple"}
            elif isinstance(apdu, ComplexAckPDU):
                e = {"k": "complex", "hex": bytes(apdu.pduData).hex()}
            elif isinstance(apdu, ErrorPDU):
                e = {"k": "error", "hex": bytes(apdu.pduData).hex()}
            elif isinstance(apdu, RejectPDU):
                e = {"k": "reject", "r": num(RejectReason, apdu.apduAbortRejectReason)}
            elif isinstance(apdu, AbortPDU):
                e = {"k": "abort", "srv": bool(apdu.apduSrv), "r": num(AbortReason, apdu.apduAbortRejectReason)}
            else:
                e = {"k": "other"}
            if not rig.in_app and rig.cur is None:
                # the application answers LATER, from a task of its own
                d = apdu.pduDestination
                le = {"pos": len(rig.sent), "t": dev.vt.now, "src": bytes(d.addrAddr).hex(), "id": apdu.apduInvokeID,
                      "svc": apdu.apduService if apdu.apduService is not None else 0, "ans": e}
                rig.late.append(le)
                try:
                    o_sapconf(apdu)
                finally:
                    le["end"] = len(rig.sent)
                return
            if not rig.in_app:
                e["own"] = True          # the ASAP answers by itself (decode error / execution reject already recorded)
                if not (rig.entries and rig.entries[-1][0] == rig.cur and not rig.entries[-1][1].get("own")):
                    rig.entries.append((rig.cur, e))
            else:
                rig.entries.append((rig.cur, e))
            o_sapconf(apdu)
        dev.smap.sap_confirmation = sap_confirmation

    def cfg(self):
        ld = self.dev.smap.localDevice
        sm = self.dev.smap
        return {"maxApdu": ld.maxApduLengthAccepted, "seg": SEG_NAMES.index(ld.segmentationSupported),
                "maxSegs": ld.maxSegmentsAccepted, "window": sm.proposedWindowSize,
                "retries": ld.numberOfApduRetries, "apduTimeout": ld.apduTimeout,
                "segTimeout": ld.apduSegmentTimeout, "appTimeout": sm.applicationTimeout}

    def digest(self):
        out = []
        for tr in self.dev.smap.serverTransactions:
            a = tr.pdu_address
            if a.addrType == a.localStationAddr:
                p = ["ls", bytes(a.addrAddr).hex()]
            elif a.addrType == a.remoteStationAddr:
                p = ["rs", a.addrNet, bytes(a.addrAddr).hex()]
            else:
                p = ["other", str(a)]
            out.append([p, tr.invokeID, tr.state])
        return out

    def dcc_snapshot(self):
        """(gate, identity of the re-enable task, microseconds until it is due)"""
        dev = self.dev
        t = getattr(dev.app, "_dcc_enable_task", None)
        if t is not None and not t.isScheduled:
            t = None
        return (dev.smap.dccEnableDisable, id(t) if t is not None else None,
                int(round((t.taskTime - dev.vt.now) * 1000000)) if t is not None else None)

    def netdigest(self):
        """[adapterNet, adapterNetConfigured] and the keys the one adapter is filed under"""
        a = self.dev.nsap.local_adapter
        keys = sorted(self.dev.nsap.adapters.keys(), key=lambda k: -1 if k is None else k)
        return [a.adapterNet, a.adapterNetConfigured, keys]

    def batch(self, frames):
        """inject all frames in the same instant -> observation record"""
        dev = self.dev
        vt = dev.vt
        self.n = 0
        self.cur = None
        del self.sent[:]
        del self.entries[:]
        del self.late[:]
        e0 = len(vt.errors)
        base = dev.snapshot()
        for (src, f, bc) in norm(frames):
            dev.peers[src].send(f, None if bc else dev.address)
        ok1 = vt.run(until=vt.now + 0.001, max_loops=20000)
        per = []
        for i in range(len(frames)):
            per.append({"out": [[d, mask(o)] for (c, d, o) in self.sent if c == i and not is_unconf(o)],
                        "entries": [e for (c, e) in self.entries if c == i]})
        mid = {"sv": self.digest(), "cl": len(dev.smap.clientTransactions), "dcc": dcc_code(dev.smap.dccEnableDisable),
               "net": self.netdigest()}
        stray0 = [[d, mask(o)] for (c, d, o) in self.sent if c is None and not is_unconf(o)]
        k = len(self.sent)
        # a BOUNDED time, longer than any transaction can live: what is scheduled then and was not before
        # the batch is a leftover unless the unchanged code (and, for the network layer, the model) says so
        ok2 = vt.run(until=vt.now + dev.bound(), max_loops=20000)
        ltasks, bad = dev.leftover(base)
        ok2 = vt.run(max_loops=20000) and ok2
        late = [[d, mask(o)] for (c, d, o) in self.sent[k:] if not is_unconf(o)]
        res = dev.residue()
        fin = {"out": stray0 + late, "sv": self.digest(), "cl": len(dev.smap.clientTransactions), "net": self.netdigest()}
        return {"per": per, "mid": mid, "fin": fin, "residue": res, "terminated": ok1 and ok2,
                "delivered": self.n, "errors": [list(e) for e in vt.errors[e0:][:3]],
                "dcc": dcc_code(dev.smap.dccEnableDisable),
                "iam": bool(getattr(dev.app.deviceInfoCache, "cache", None)),
                "paths": len(dev.nsap.router_info_cache.path_info),
                "late_tasks": ltasks, "unexpected_tasks": bad}


def norm(frames):
    """a batch as [(sending station, octets, link-level broadcast?)]"""
    out = []
    for f in frames:
        if not isinstance(f, tuple):
            f = (C.PEER, f)
        out.append((f[0], f[1], bool(len(f) > 2 and f[2])))
    return out


def mask(octets):
    """network priority is not modelled: clear the two priority bits of the NPCI control octet"""
    b = bytearray(octets)
    if len(b) >= 2:
        b[1] &= 0xFC
    return bytes(b).hex()


def is_unconf(octets):
    """unconfirmed requests the application sends on its own (I-Am): the application's business"""
    h = C.decode_apdu_header(octets)
    return bool(h) and h.get("type") == 1


# ------------------------------------------------------------------ a faulty service helper

HELPER_RAISES = {1: "RuntimeError", 2: "KeyError", 3: "ZeroDivisionError", 4: "TypeError", 5: "ExecutionError",
                 6: "ParameterOutOfRange", 7: "OutOfResources", 8: "ValueError", 9: "AttributeError", 10: "ack"}


def faulty_helper(app):
    """do_ConfirmedPrivateTransferRequest for the device under test: raises by service number"""
    from bacpypes import errors as E
    from bacpypes.apdu import SimpleAckPDU

    def helper(apdu):
        n = apdu.serviceNumber
        kind = HELPER_RAISES.get(n, "ack")
        if kind == "ExecutionError":
            raise E.ExecutionError("services", "serviceRequestDenied")
        if kind == "ParameterOutOfRange":
            raise E.ParameterOutOfRange("service number")
        if kind == "OutOfResources":
            raise E.OutOfResources("service number")
        if kind == "ZeroDivisionError":
            return 1 // 0
        if kind == "ack":
            return app.response(SimpleAckPDU(context=apdu))
        raise {"RuntimeError": RuntimeError, "KeyError": KeyError, "TypeError": TypeError,
               "ValueError": ValueError, "AttributeError": AttributeError}[kind]("helper failed")
    return helper


# ------------------------------------------------------------------ constructed histories

def shapes(ctx, rng, T):
    """(frames, label) batches exercising what single-octet mutation rarely reaches"""
    out = []

    def apdu_of(frame):
        return frame[2:]

    def cr_hdr(inv, svc, seg=None, mor=False, sa=True, maxsegs=0, maxresp=5):
        b0 = (8 if seg else 0) | (4 if mor else 0) | (2 if sa else 0)
        h = bytes([b0, (maxsegs << 4) | maxresp, inv])
        if seg:
            h += bytes([seg[0], seg[1]])
        return h + bytes([svc])

    def segack(inv, seq, win, nak=False, srv=False):
        return b"\x01\x00" + bytes([0x40 | (2 if nak else 0) | (1 if srv else 0), inv, seq, win])

    def abort(inv, srv=False, reason=0):
        return b"\x01\x00" + bytes([0x70 | (1 if srv else 0), inv, reason])

    rp_list = T["rp-index"][:2] + cr_hdr(40, 12) + bytes.fromhex("0c02000014194c")       # whole objectList
    rpm = T["rpm"]
    rpm_body = apdu_of(rpm)[4:]
    # 1. answers that need segmentation under every announced size / SA flag / max-segments code
    for maxresp in range(0, 16):
        for sa in (False, True):
            for maxsegs in (0, 1, 4, 7):
                f = b"\x01\x04" + cr_hdr(41, 14, sa=sa, maxsegs=maxsegs, maxresp=maxresp) + rpm_body
                out.append(([f], "segresp/open"))
    # 2. ... and the peer drives the transfer: acks in and out of window, duplicates, naks, abort
    f0 = b"\x01\x04" + cr_hdr(42, 14, sa=True, maxsegs=0, maxresp=0) + rpm_body
    for script in ([(0, 2)], [(0, 2), (2, 2)], [(0, 2), (2, 2), (4, 2), (6, 2)], [(1, 4), (5, 4)], [(0, 1), (1, 1), (2, 1)],
                   [(7, 2)], [(0, 2), (0, 2)], [(0, 0)], [(0, 200), (200, 2)]):
        fr = [f0] + [segack(42, s, w) for (s, w) in script]
        out.append((fr, "segresp/acks"))
    out.append(([f0, segack(42, 0, 2, nak=True)], "segresp/nak"))
    out.append(([f0, segack(42, 0, 2, srv=True)], "segresp/ack-srv"))
    out.append(([f0, abort(42)], "segresp/abort"))
    out.append(([f0, abort(42, srv=True)], "segresp/abort-srv"))
    out.append(([f0, f0], "segresp/dup-request"))          # RuntimeError invalid APDU (7): modelled as raised, no frame
    out.append(([f0, T["rp"]], "segresp/other-request"))
    # 3. segmented requests: complete, out of order, duplicate, gap, abandoned, aborted, wrong first seq
    body = apdu_of(T["wp-string"])[4:]
    parts = [body[i:i + 5] for i in range(0, len(body), 5)]

    def seg(i, inv=43, win=2, mor=None):
        m = (i < len(parts) - 1) if mor is None else mor
        return b"\x01\x04" + cr_hdr(inv, 15, seg=(i, win), mor=m) + parts[i]
    n = len(parts)
    out.append(([seg(i) for i in range(n)], "segreq/complete"))
    out.append(([seg(i, win=1) for i in range(n)], "segreq/window1"))
    out.append(([seg(i, win=127) for i in range(n)], "segreq/window127"))
    out.append(([seg(0)], "segreq/abandoned"))
    out.append(([seg(0), seg(1)], "segreq/abandoned2"))
    out.append(([seg(0), seg(2)], "segreq/gap"))
    out.append(([seg(0), seg(0)], "segreq/dup-first"))
    out.append(([seg(0), seg(1), seg(1), seg(2)], "segreq/dup-middle"))
    out.append(([seg(1)], "segreq/first-seq1"))
    out.append(([seg(n - 1)], "segreq/first-is-last"))
    out.append(([seg(0), abort(43)], "segreq/abort"))
    out.append(([seg(0), abort(43, srv=True)], "segreq/abort-srv"))
    out.append(([seg(0), T["wp-string"][:4] + bytes([43]) + T["wp-string"][5:]], "segreq/unsegmented-dup"))
    out.append(([seg(0), segack(43, 0, 2)], "segreq/segack"))
    out.append(([seg(0, mor=False)], "segreq/single"))
    out.append(([seg(i) for i in range(n - 1)] + [seg(n - 1)[:-2]], "segreq/truncated-last"))
    out.append(([seg(0, win=0), seg(1, win=0)], "segreq/window0"))
    # 4. every PDU type toward a device without client transactions
    for t in (0x20, 0x30, 0x38, 0x3C, 0x40, 0x41, 0x42, 0x43, 0x50, 0x60, 0x70, 0x71):
        for ln in range(0, 7):
            out.append(([b"\x01\x00" + bytes([t]) + bytes(rng.getrandbits(8) for _ in range(ln))], "types/%02x" % t))
    # 5. NPCI variants in front of a valid request / of garbage
    rp = apdu_of(T["rp"])
    sadr = bytes.fromhex("0005") + b"\x01\x07"
    for ctl, mid, tail in (
            (0x08, sadr, b""), (0x0C, sadr, b""), (0x08, bytes.fromhex("0005") + b"\x06\x01\x02\x03\x04\x05\x06", b""),
            (0x08, bytes.fromhex("ffff0107"), b""), (0x08, bytes.fromhex("000500"), b""),
            (0x20, bytes.fromhex("ffff00"), b"\xff"), (0x24, bytes.fromhex("ffff00"), b"\x00"),
            (0x20, bytes.fromhex("000700"), b"\xff"), (0x20, bytes.fromhex("00070114"), b"\xff"),
            (0x28, bytes.fromhex("ffff00") + sadr, b"\xff"), (0x28, bytes.fromhex("00070114") + sadr, b"\x10"),
            (0x10, b"", b""), (0x40, b"", b""), (0x54, b"", b""), (0x03, b"", b""), (0x07, b"", b"")):
        out.append(([bytes([1, ctl]) + mid + tail + rp], "npci/%02x" % ctl))
        out.append(([bytes([1, ctl]) + mid + tail + rp, T["rp-index"]], "npci/%02x+valid" % ctl))
        out.append(([bytes([1, ctl]) + mid + tail + rp[:3]], "npci/%02x-short" % ctl))
        big = b"\x01" + bytes([ctl]) + mid + tail + cr_hdr(44, 14, sa=True, maxresp=0) + rpm_body
        out.append(([big], "npci/%02x-segresp" % ctl))
    for ver in (0, 2, 255):
        out.append(([bytes([ver]) + T["rp"][1:]], "npci/version"))
    # 6. network layer messages (unicast to the station), then a routed request
    msgs = {0x00: [b"", b"\x00\x05", b"\x00"], 0x01: [b"", b"\x00\x05", b"\x00\x05\x00\x06", b"\x00\x05\x00"],
            0x02: [b"\x00\x05\x01", b"\x00\x05"], 0x03: [b"\x01\x00\x05", b"\x01"], 0x04: [b"\x00\x05", b"\x00"],
            0x05: [b"", b"\x00\x05"], 0x06: [b"\x00", b"\x01\x00\x05\x01\x00", b"\x01\x00\x05\x01\x02\xaa", b"\x02\x00\x05\x01\x00"],
            0x07: [b"\x00", b"\x01\x00\x05\x01\x00"], 0x08: [b"\x00\x05\x01", b"\x00"], 0x09: [b"\x00\x05", b""],
            0x12: [b"", b"\x00"], 0x13: [b"\x00\x05\x01", b"\x00\x05", b""], 0x0A: [b"", b"\x00"], 0x7F: [b"\x01"],
            0x80: [b"\x00\x07", b"\x00\x07\x01\x02", b"\x00"], 0xFF: [b"\x03\xe7\x00"]}
    routed = bytes([1, 0x0C]) + sadr + rp
    for mt, bodies in sorted(msgs.items()):
        for b in bodies:
            m = bytes([1, 0x80, mt]) + b
            out.append(([m], "netmsg/%02x" % mt))
            out.append(([m, routed], "netmsg/%02x+routed" % mt))
            out.append(([bytes([1, 0x88]) + sadr + bytes([mt]) + b, routed], "netmsg/%02x-sadr+routed" % mt))
    # 7. every template as the encoder made it (must reach the application), the same invoke id twice,
    #    many requests at one instant
    for k in sorted(T):
        if C.classify(T[k])[0] == "confirmed":
            out.append(([T[k]], "valid/" + k))
    out.append(([T["rp"], T["rp"]], "dup/same-instant"))
    out.append(([T[k] for k in sorted(T)], "burst/all-templates"))
    out.append(([T[k] for k in sorted(T)] * 3, "burst/all-templates-x3"))
    # 8. a service helper that raises: every exception family must still produce a reply
    #    (Application.indication: ExecutionError -> Error, Reject/Abort families -> Reject/Abort PDU,
    #    anything else -> Error operationalProblem).  The helper is installed by `shard` for these batches.
    cpt = T["cpt-unsupported"]
    for n in sorted(HELPER_RAISES):
        f = cpt[:-1] + bytes([n])
        out.append(([f], "helper/%d" % n))
        out.append(([f, T["rp"]], "helper/%d+valid" % n))
    # 10. hostile segment acks during a segmented answer of many segments (rpm-big under a 50-octet
    #     maximum: 7 segments): after a normal first ack, acks with window 0 / 128 / 255, sequence numbers
    #     in and out of the window, nak, wrong server flag — then silence.  After quiescence nothing may be
    #     left, and a request with the SAME invoke id must be answered (kept step on the same device).
    big = T["rpm-big"][:2] + cr_hdr(45, 14, sa=True, maxsegs=0, maxresp=0) + T["rpm-big"][6:]
    follow = T["rp"][:4] + bytes([45]) + T["rp"][5:]
    hostile = [(s_, w_, n_, v_) for w_ in (0, 128, 255) for s_ in (0, 1, 2, 3, 6, 7, 200) for (n_, v_) in ((False, False),)]
    hostile += [(s_, w_, True, False) for s_ in (0, 2, 200) for w_ in (0, 2, 255)]
    hostile += [(s_, w_, False, True) for s_ in (0, 2) for w_ in (0, 2)]
    for first in ((0, 2), (0, 1), (0, 4)):
        for (s_, w_, n_, v_) in hostile:
            if first != (0, 2) and not (w_ == 0 or n_):
                continue
            out.append(([big, segack(45, *first), segack(45, s_, w_, nak=n_, srv=v_)], "hostile/w%d" % w_))
            out.append(([follow], "followup/hostile-w%d" % w_, True))
    for w_ in (0, 128, 255):
        out.append(([big, segack(45, 0, 2), segack(45, 2, 2), segack(45, 4, w_), segack(45, 4, w_)], "hostile/late-w%d" % w_))
        out.append(([follow], "followup/hostile-late-w%d" % w_, True))
        out.append(([big, segack(45, 0, w_)], "hostile/first-w%d" % w_))
        out.append(([follow], "followup/hostile-first-w%d" % w_, True))
    # 11. routed traffic through DIFFERENT link stations: junk carrying an SNET from station X, then a valid
    #     request from that network delivered by the real router R (kept step, and in the same instant);
    #     the reply must go to the station that delivered the request, DNET/DADR = its SNET/SADR
    rpv = T["rp"]
    X, R, R2 = 11, 12, 10
    junk = [b"", b"\x00", b"\xff\xff", rp[:3], b"\x20\x01\x0c", b"\x30\x01\x0c\x00", b"\x10\x08", b"\x40\x01\x00\x02"]
    for net in (5, 300):
        for sa_ in (b"\x07", b"\x01\x02\x03\x04\x05\x06"):
            valid = C.routed(rpv[:4] + bytes([46]) + rpv[5:], net, sa_)
            valid2 = C.routed(T["rp-index"][:4] + bytes([47]) + T["rp-index"][5:], net, sa_)
            for jk in junk:
                g = bytes([1, 0x08]) + bytes([net >> 8, net & 255, len(sa_)]) + sa_ + jk
                out.append(([(X, g)], "routed/junk"))
                out.append(([(R, valid)], "routed/valid-after-junk", True))
                out.append(([(R2, valid2)], "routed/valid-other-router", True))
                out.append(([(X, g), (R, valid)], "routed/junk+valid"))
                out.append(([(R, valid), (X, g), (R, valid2)], "routed/valid+junk+valid"))
            # corrupted copies of the routed request itself from X, and network messages carrying the SNET
            for pos in (len(valid) - 1, len(valid) - 3, 8 + len(sa_)):
                c = bytearray(valid[:4] + valid[4:])
                c[pos] ^= 0xFF
                out.append(([(X, bytes(c)[:pos + 1])], "routed/corrupt"))
                out.append(([(R, valid)], "routed/valid-after-corrupt", True))
            m = bytes([1, 0x88]) + bytes([net >> 8, net & 255, len(sa_)]) + sa_ + b"\x01" + bytes([net >> 8, net & 255])
            out.append(([(X, m)], "routed/netmsg"))
            out.append(([(R, valid)], "routed/valid-after-netmsg", True))
            out.append(([(X, bytes([1, 0x80, 0x01, net >> 8, net & 255]))], "routed/iamrouter"))
            out.append(([(R, valid)], "routed/valid-after-iamrouter", True))
            out.append(([(R, valid), (R2, valid2), (X, valid[:4] + valid[4:-2])], "routed/three-stations"))
            # a segmented answer to a routed client: retransmissions go to the router as well
            bigr = C.routed(big, net, sa_)
            out.append(([(X, bytes([1, 0x08]) + bytes([net >> 8, net & 255, len(sa_)]) + sa_), (R, bigr)], "routed/segresp"))
    # 12. strangers: while a 7-segment answer to station 10 is open, stations 11 / 12 send Abort, SegmentAck
    #     and other PDU types carrying the SAME invoke id (and other ids); station 10 then goes on acknowledging:
    #     its transfer must continue untouched (every segment arrives, nothing it did not cause), the strangers
    #     get nothing or an answer of their own
    def other(st, inv):
        l = [abort(inv), abort(inv, srv=True), abort(inv, reason=9)]
        l += [segack(inv, q_, w_, nak=n_, srv=v_) for q_ in (0, 2, 6, 7, 200) for w_ in (0, 1, 2, 127, 255)
              for (n_, v_) in ((False, False), (True, False))]
        l += [segack(inv, 6, 2, srv=True), segack(inv, 2, 2, nak=True, srv=True)]
        l += [b"\x01\x00" + bytes([0x20, inv, 14]), b"\x01\x00" + bytes([0x30, inv, 14, 0x0c]), b"\x01\x00" + bytes([0x50, inv, 14, 0x91, 0, 0x91, 0]),
              b"\x01\x00" + bytes([0x60, inv, 4]), b"\x01\x04" + cr_hdr(inv, 12) + rp[4:], b"\x01\x04" + cr_hdr(inv, 15, seg=(1, 2), mor=True) + b"\x00"]
        return [(st, x) for x in l]
    strangers = other(11, 45) + other(12, 45)[:8] + other(11, 44)[:12]
    for when in (1, 2, 3):
        for sx in strangers:
            script = [big, segack(45, 0, 2), segack(45, 2, 2), segack(45, 4, 2), segack(45, 6, 2)]
            script.insert(when + 1, sx)
            out.append((script, "stranger/at%d" % when))
    for sx in strangers[:60]:
        out.append(([big, segack(45, 0, 2), sx], "stranger/then-silence"))
    # 13. the network layer talks first: 1..3 network messages of every type with varying parameters, unicast
    #     and broadcast, from different stations (Network-Number-Is with several numbers and flags, …), THEN
    #     (kept step) valid local and routed requests: each answered as on a fresh device, to its deliverer
    def nm(mt, b):
        return bytes([1, 0x80, mt]) + b
    nni = lambda n_, fl: nm(0x13, bytes([n_ >> 8, n_ & 255, fl]))
    msgpool = [(nni(5, 0), True), (nni(6, 0), True), (nni(5, 1), True), (nni(7, 2), True), (nni(300, 0), True), (nni(5, 0), False),
               (nni(0, 0), True), (nni(65535, 0), True), (nm(0x13, b"\x00\x05"), True), (nm(0x12, b""), True), (nm(0x12, b""), False),
               (nm(0x01, b"\x00\x05"), False), (nm(0x01, b"\x00\x05\x00\x06\x01\x2c"), True), (nm(0x00, b""), True), (nm(0x00, b"\x00\x05"), False),
               (nm(0x02, b"\x00\x05\x01"), False), (nm(0x03, b"\x01\x00\x05"), False), (nm(0x04, b"\x00\x05"), True), (nm(0x05, b"\x00\x05"), True),
               (nm(0x06, b"\x01\x00\x05\x01\x00"), False), (nm(0x07, b"\x00"), False), (nm(0x08, b"\x00\x05\x01"), False),
               (nm(0x09, b"\x00\x05"), False), (bytes([1, 0x88, 0, 5, 1, 7, 0x13, 0, 6, 0]), True), (bytes([1, 0xA0, 0xff, 0xff, 0, 0xff, 0x13, 0, 9, 0]), True)]

    def after_requests():
        fr = [(10, rpv[:4] + bytes([48]) + rpv[5:])]
        for i_, n_ in enumerate((5, 6, 7, 300, 9)):
            fr.append((12 if i_ % 2 == 0 else 11, C.routed(rpv[:4] + bytes([50 + i_]) + rpv[5:], n_, b"\x07")))
        fr.append((10, bytes([1, 0x24, 0xff, 0xff, 0, 0]) + rpv[2:4] + bytes([56]) + rpv[5:]))
        fr.append((10, bytes([1, 0x24, 0, 5, 1, C.DEVICE, 0]) + rpv[2:4] + bytes([57]) + rpv[5:]))       # directed to (5, our MAC), hop count 0
        fr.append((10, bytes([1, 0x24, 0, 6, 1, C.DEVICE, 255]) + rpv[2:4] + bytes([58]) + rpv[5:]))
        fr.append((10, bytes([1, 0x24, 0, 5, 0, 1]) + rpv[2:4] + bytes([59]) + rpv[5:]))
        return fr
    seqs = [[m] for m in msgpool]
    seqs += [[msgpool[a], msgpool[b]] for a in range(0, 11) for b in range(0, 11) if a != b]
    seqs += [[msgpool[0], msgpool[1], msgpool[0]], [msgpool[1], msgpool[0], msgpool[4]], [msgpool[2], msgpool[1], msgpool[3]],
             [msgpool[0], msgpool[9], msgpool[1]], [msgpool[0], msgpool[9], msgpool[9]], [msgpool[0], msgpool[11], msgpool[1]],
             [msgpool[12], msgpool[0], msgpool[1]], [msgpool[0], msgpool[10], msgpool[1]], [msgpool[3], msgpool[0], msgpool[1]]]
    for q_, sq in enumerate(seqs):
        stations = (11, 12, 10)
        step = [(stations[(q_ + i_) % 3], m, bc) for i_, (m, bc) in enumerate(sq)]
        if q_ % 2:
            out.append((step, "netfirst/%d" % len(sq)))
            out.append((after_requests(), "afternet/requests", True))
        else:       # one step at a time, quiescence in between
            for i_, x in enumerate(step):
                out.append(([x], "netfirst/single", i_ > 0))
            out.append((after_requests(), "afternet/requests", True))
    # 9. DeviceCommunicationControl: disable (with and without duration), then traffic
    dcc_dis = T["dcc"][:6] + bytes.fromhex("0901") + bytes.fromhex("1901")
    dcc_dis_forever = T["dcc"][:6] + bytes.fromhex("1901")
    dcc_init = T["dcc"][:6] + bytes.fromhex("1902")
    for d, lab in ((dcc_dis, "timed"), (dcc_dis_forever, "forever"), (dcc_init, "initiation")):
        out.append(([d, T["rp"], T["whois"], T["dcc"]], "dcc/%s" % lab))
        out.append(([d, T["reinit-unsupported"], T["rp"]], "dcc/%s-reinit" % lab))
    return out


def histories(ctx, rng, T, n):
    """random same-instant histories over few invoke ids: valid requests, their mutations, requests
    whose answer needs segmentation, segments of a segmented request in any order, segment acks,
    aborts, routed requests, garbage — colliding on purpose"""
    conf = [k for k in sorted(T) if C.classify(T[k])[0] == "confirmed" and k != "dcc"]
    body = T["wp-string"][6:]
    parts = [body[i:i + 6] for i in range(0, len(body), 6)]
    sadr = bytes.fromhex("0005") + b"\x01\x07"

    def with_id(f, inv):
        return f[:4] + bytes([inv]) + f[5:]

    def one(inv):
        r = rng.random()
        if r < 0.22:
            return with_id(T[rng.choice(conf)], inv)
        if r < 0.34:
            f = bytearray(with_id(T[rng.choice(conf)], inv))
            if rng.random() < 0.3:
                return bytes(f[:rng.randrange(0, len(f))])
            pos = rng.randrange(0, len(f))
            f[pos] = rng.getrandbits(8)
            return bytes(f)
        if r < 0.46:      # answer may need segmentation
            f = bytearray(with_id(T[rng.choice(["rpm", "rp-index", "rp"])], inv))
            f[2] = (f[2] & ~2) | (2 if rng.random() < 0.7 else 0)
            f[3] = (rng.choice([0, 1, 4, 7]) << 4) | rng.choice([0, 0, 0, 1, 2, 5, 6])
            return bytes(f)
        if r < 0.62:      # a segment of a segmented WriteProperty
            i = rng.randrange(len(parts))
            mor = (i < len(parts) - 1) if rng.random() < 0.9 else rng.random() < 0.5
            b0 = 8 | (4 if mor else 0) | 2
            return b"\x01\x04" + bytes([b0, 0x05, inv, i, rng.choice([1, 2, 2, 4, 127, 0]), 15]) + parts[i]
        if r < 0.76:      # segment ack
            return b"\x01\x00" + bytes([0x40 | (2 if rng.random() < 0.15 else 0) | (1 if rng.random() < 0.15 else 0),
                                        inv, rng.choice([0, 0, 1, 2, 3, 5, 255]), rng.choice([1, 2, 2, 4, 0, 200])])
        if r < 0.82:      # abort
            return b"\x01\x00" + bytes([0x70 | (1 if rng.random() < 0.3 else 0), inv, rng.getrandbits(8)])
        if r < 0.90:      # routed
            f = with_id(T[rng.choice(conf)], inv)
            return bytes([1, f[1] | 0x08]) + sadr + f[2:]
        ln = rng.choice([0, 1, 2, 3, 5, 9, 30])
        return rng.choice([b"", b"\x01\x00", b"\x01\x04", b"\x01\x80", b"\x01\x20"]) + bytes(rng.getrandbits(8) for _ in range(ln))

    for _ in range(n):
        k = rng.choice([2, 3, 4, 6, 9])
        yield [one(rng.choice([1, 2, 3])) for _ in range(k)], "history/%d" % k


# ------------------------------------------------------------------ timed scripts, several devices in one process

def make_iam(rig):
    """an application that fills its device-information cache from the I-Ams it hears
    (DeviceInfoCache.iam_device_info in do_IAmRequest, as applications that talk segmentation do)"""
    app = rig.dev.app
    stock = app.do_IAmRequest

    def helper(apdu):
        stock(apdu)
        app.deviceInfoCache.iam_device_info(apdu)
        a = apdu.pduSource
        info = app.deviceInfoCache.get_device_info(a)
        rig.learns.append((rig.cur, bytes(a.addrAddr).hex(),
                           {"maxApdu": info.maxApduLengthAccepted, "seg": SEG_NAMES.index(info.segmentationSupported),
                            "maxSegs": info.maxSegmentsAccepted, "maxNpdu": info.maxNpduLength}))
    app.do_IAmRequest = helper


DEFER = (0.1, 1.0, 2.9, 3.5)         # seconds, by invoke id modulo 4; the last one is beyond the application timeout


def make_deferred(dev):
    """a gateway-style application: for 'proxied' objects (binaryValue 1, multiStateValue 1, file 1) the stock
    helper's work — and its answer — happens LATER in a task of the application, as Application.indication
    would have done it (execution errors become Error PDUs, reject / abort exceptions Reject / Abort PDUs)"""
    from bacpypes.task import FunctionTask
    from bacpypes.errors import ExecutionError, RejectException, AbortException
    from bacpypes.apdu import Error, RejectPDU, AbortPDU
    app = dev.app
    proxied = (("binaryValue", 1), ("multiStateValue", 1), ("file", 1))

    def wrap(name, key):
        stock = getattr(app, name)

        def helper(apdu):
            if key(apdu) not in proxied:
                return stock(apdu)

            def later():
                try:
                    stock(apdu)
                except RejectException as err:
                    r = RejectPDU(reason=err.rejectReason)
                    r.set_context(apdu)
                    app.response(r)
                except AbortException as err:
                    a = AbortPDU(reason=err.abortReason)
                    a.set_context(apdu)
                    app.response(a)
                except ExecutionError as err:
                    app.response(Error(errorClass=err.errorClass, errorCode=err.errorCode, context=apdu))
                except Exception:
                    app.response(Error(errorClass='device', errorCode='operationalProblem', context=apdu))
            FunctionTask(later).install_task(delta=DEFER[apdu.apduInvokeID % 4])
        setattr(app, name, helper)
    wrap("do_ReadPropertyRequest", lambda a: a.objectIdentifier)
    wrap("do_AtomicReadFileRequest", lambda a: a.fileIdentifier)


class World:
    """1..3 complete device stacks in ONE process (one scheduler), on one LAN or each on its own, every one
    instrumented; runs a SCRIPT of events
        (seconds since the previous event, sending station, octets, link broadcast?, device index)
    or ("rearm",) — the application suspends and re-installs its own long-lived timers.
    With `housekeeping` the first device's application owns a recurring task (5 min) and a housekeeping
    FunctionTask (10 min), installed BEFORE anything arrives (they sit in the scheduler's heap in front of the
    transaction timers)."""

    def __init__(self, Device, ndev=1, own_lans=False, housekeeping=False, password=None, deferred=False, iam=False):
        first = Device()
        self.devs = [first] + [Device(beside=first, address=C.DEVICE + k, own_lan=own_lans) for k in range(1, ndev)]
        self.rigs = [Rig(dev=d) for d in self.devs]
        self.vt = first.vt
        self.app_tasks = []
        if password:
            for d in self.devs:
                d.device._dcc_password = password
        if deferred:
            for d in self.devs:
                make_deferred(d)
        if iam:
            for r in self.rigs:
                make_iam(r)
        if housekeeping:
            # 1: a recurring task (5 min); 2: + a housekeeping FunctionTask (10 min); 3: + a second one (7 min)
            from bacpypes.task import RecurringTask, FunctionTask

            class Recurring(RecurringTask):
                def process_task(self_inner):
                    pass
            r = Recurring(300 * 1000)
            r.install_task()
            self.app_tasks = [(r, None)]
            for lvl, delta in ((2, 600), (3, 420)):
                if int(housekeeping) >= lvl:
                    h = FunctionTask(lambda: None)
                    h.install_task(delta=delta)
                    self.app_tasks.append((h, delta))

    def rearm(self):
        for (t, _d) in self.app_tasks:
            t.suspend_task()
        for (t, d) in self.app_tasks:
            if d is None:
                t.install_task()
            else:
                t.install_task(delta=d)

    def leftover(self, base):
        """tasks scheduled now, not at the baseline, that NO device of the process may legitimately hold"""
        per = [d.leftover(base) for d in self.devs]
        allt = per[0][0]
        bad = [x for x in per[0][1] if all(x in p[1] for p in per)]
        return allt, bad

    def run(self, script):
        vt = self.vt
        rigs = self.rigs
        for r in rigs:
            r.n = 0
            r.cur = None
            del r.sent[:]
            del r.entries[:]
            del r.late[:]
            del r.learns[:]
        e0 = len(vt.errors)
        base = set(id(t) for (_w, t) in vt.pending())
        steps = [[] for _ in rigs]              # per device: what happened, in order
        t = vt.now
        ok = True
        open_group = False

        def close_group():
            nonlocal ok
            ok = vt.run(until=t + 0.001, max_loops=200000) and ok
            for k, r in enumerate(rigs):
                for st in steps[k]:
                    if st["kind"] == "recv" and "out" not in st:
                        i = st["n"]
                        st["out"] = [[d, mask(o)] for (c, d, o) in r.sent if c == i and not is_unconf(o)]
                        st["entries"] = [e for (c, e) in r.entries if c == i]
                        st["learn"] = [[a, info] for (c, a, info) in r.learns if c == i]
                if steps[k]:
                    steps[k][-1]["sv"] = r.digest()
                    steps[k][-1]["dcc"] = dcc_code(r.dev.smap.dccEnableDisable)

        counts = [0 for _ in rigs]
        for ev in script:
            if ev[0] == "rearm":
                if open_group:
                    close_group()
                    open_group = False
                self.rearm()
                continue
            delay, src, octets, bc, k = ev
            if delay > 0:
                if open_group:
                    close_group()
                    open_group = False
                marks = [len(r.sent) for r in rigs]
                lates = [len(r.late) for r in rigs]
                t_from = t
                t = t + delay
                ok = vt.run(until=t, max_loops=200000) and ok
                for j, r in enumerate(rigs):
                    # the application may have answered (late) meanwhile: time passes up to each such answer
                    pos, at = marks[j], t_from
                    for le in r.late[lates[j]:]:
                        steps[j].append({"kind": "adv", "us": int(round((le["t"] - at) * 1000000)),
                                         "out": [[d, mask(o)] for (c, d, o) in r.sent[pos:le["pos"]] if c is None and not is_unconf(o)]})
                        steps[j].append({"kind": "respond", "src": le["src"], "id": le["id"], "svc": le["svc"],
                                         "ans": dict((k2, v2) for k2, v2 in le["ans"].items() if k2 != "own"),
                                         "out": [[d, mask(o)] for (c, d, o) in r.sent[le["pos"]:le["end"]] if not is_unconf(o)]})
                        pos, at = le["end"], le["t"]
                    steps[j].append({"kind": "adv", "us": int(round((t - at) * 1000000)),
                                     "out": [[d, mask(o)] for (c, d, o) in r.sent[pos:] if c is None and not is_unconf(o)]})
            targets = range(len(rigs)) if bc else [k]
            rigs[k].dev.peers[src].send(octets, None if bc else rigs[k].dev.address)
            for j in targets:
                if bc and rigs[j].dev.lan is not rigs[k].dev.lan:
                    continue
                steps[j].append({"kind": "recv", "n": counts[j], "src": src, "hex": octets.hex(), "bc": bool(bc)})
                counts[j] += 1
            open_group = True
        if open_group:
            close_group()
        marks = [len(r.sent) for r in rigs]
        lates = [len(r.late) for r in rigs]
        ok = vt.run(until=vt.now + max(d.bound() for d in self.devs), max_loops=200000) and ok
        ltasks, bad = self.leftover(base)
        for (tk, _d) in self.app_tasks:
            tk.suspend_task()
        # (a recurring task that cannot be cancelled would keep the scheduler busy for ever)
        ok = vt.run(max_loops=5000) and ok
        recs = []
        for j, r in enumerate(rigs):
            d = r.dev
            recs.append({"steps": steps[j],
                         "fin": {"out": [[dd, mask(o)] for (c, dd, o) in r.sent[marks[j]:] if not is_unconf(o)],
                                 "sv": r.digest(), "cl": len(d.smap.clientTransactions), "net": r.netdigest()},
                         "residue": d.residue(), "delivered": r.n, "expected": counts[j],
                         "late_after_script": len(r.late) - lates[j],
                         "dcc": dcc_code(d.smap.dccEnableDisable),
                         "description": bytes(d.file._data).decode("latin-1"),
                         "sent": [[dd, mask(o)] for (c, dd, o) in r.sent if not is_unconf(o)]})
        return {"devices": recs, "terminated": ok, "errors": [list(e) for e in vt.errors[e0:][:3]],
                "late_tasks": ltasks, "unexpected_tasks": bad}


def answers_of(entries):
    """the application's behaviour as the model is told it: its answers; 'later' where the helper returned
    without answering"""
    out = []
    for e in entries:
        if e["k"] == "other":
            continue
        a = dict(e)
        a.pop("own", None)
        if a["k"] == "silent":
            a["k"] = "later"
        out.append(a)
    return out


def script_ops(rec_dev):
    """-> (model requests, index of the request that answers each step)"""
    ops, at = [], []
    for st in rec_dev["steps"]:
        at.append(len(ops))
        if st["kind"] == "adv":
            ops.append({"op": "advance", "us": st["us"]})
        elif st["kind"] == "respond":
            ops.append({"op": "respond", "src": st["src"], "id": st["id"], "svc": st["svc"], "ans": st["ans"]})
        else:
            ops.append({"op": "recv", "src": "%02x" % st["src"], "bc": st["bc"], "hex": st["hex"],
                        "app": answers_of(st["entries"])})
            for (a, info) in st.get("learn", []):
                ops.append({"op": "learn", "src": a, "info": info})      # the application learned from an I-Am
    at.append(len(ops))
    ops.append({"op": "quiesce"})
    return ops, at


def upload(text, inv, seg_size, win, svc=7, body=None):
    """segments (NPCI in front) of an AtomicWriteFile(file 1, stream access, position 0, data := text),
    or of the given service parameters `body` of service `svc`"""
    body = wp_body(text) if body is None else body
    parts = [body[i:i + seg_size] for i in range(0, len(body), seg_size)]
    out = []
    for i, part in enumerate(parts):
        b0 = 8 | (4 if i < len(parts) - 1 else 0) | 2
        out.append(b"\x01\x04" + bytes([b0, 0x05, inv, i % 256, win, svc]) + part)
    return out


_WP = {}


def wp_body(text):
    if text not in _WP:
        from bacpypes.apdu import (AtomicWriteFileRequest, AtomicWriteFileRequestAccessMethodChoice,
                                   AtomicWriteFileRequestAccessMethodChoiceStreamAccess, ConfirmedRequestPDU)
        from bacpypes.primitivedata import OctetString
        awf = AtomicWriteFileRequest(fileIdentifier=("file", 1), accessMethod=AtomicWriteFileRequestAccessMethodChoice(
            streamAccess=AtomicWriteFileRequestAccessMethodChoiceStreamAccess(
                fileStartPosition=0, fileData=OctetString(text.encode("ascii")))))
        x = ConfirmedRequestPDU()
        awf.encode(x)
        _WP[text] = bytes(x.pduData)
    return _WP[text]


def expected_acks(nseg, win):
    """sequence numbers the receiver acknowledges for a fault-free upload of nseg segments whose sender proposes
    window `win` (receiver's own limit 2): the first segment, every end of window (modulo 256), the last"""
    w = min(win, 2)
    acks = [0]
    init = 0
    for i in range(1, nseg):
        if i == nseg - 1:
            acks.append(i % 256)
        elif i % 256 == (init + w) % 256:
            acks.append(i % 256)
            init = i % 256
    return acks


def scripts(ctx, rng, T, stream):
    """-> (world config, script, label, expectations)"""
    out = []
    quick = ctx.quick
    stray = lambda inv, st: (st, b"\x01\x04" + bytes([0x0e, 0x05, inv, 0, 2, 15]) + b"\x0c\x00\x80")
    rp = T["rp"]
    dcc_init = T["dcc"][:6] + bytes.fromhex("090a") + bytes.fromhex("1902")        # disable-initiation for 10 minutes
    if stream == "slow":
        # a valid segmented WriteProperty delivered SLOWLY while other stations send stray first segments, garbage and
        # valid requests in between and the application owns (and re-arms) long-lived timers
        text = "slow upload " * 6
        combos = [(gap, win, size) for gap in (0, 1, 5, 15, 19) for win in (1, 2, 8) for size in (9, 30)]
        if quick:
            combos = [(15, 2, 30), (19, 1, 9), (5, 8, 30), (0, 2, 9), (1, 1, 30), (15, 8, 9)]
        for (gap, win, size) in combos:
            segs = upload(text, 60, size, win)
            for variant in range(3):
                hk = 1 + (len(out) % 3)
                sc = []
                if len(out) % 2:
                    sc.append((0, 10, dcc_init, False, 0))           # the application's DCC duration timer (10 min)
                sc.append((0,) + stray(61, 11) + (False, 0))        # a half-open transaction of another station
                for i, sg in enumerate(segs):
                    sc.append((gap if i else 1, 10, sg, False, 0))
                    if variant == 1 and i % 3 == 1:
                        sc.append((0, 12, rp[:4] + bytes([62 + i % 4]) + rp[5:], False, 0))
                        sc.append((0, 11, bytes(rng.getrandbits(8) for _ in range(6)), False, 0))
                    if variant == 2 and i % 2 == 1:
                        sc.append(("rearm",))
                        sc.append((0,) + stray(70 + i % 3, 12) + (False, 0))
                out.append(({"ndev": 1, "housekeeping": hk}, sc, "slow/gap%d-w%d-s%d-v%d-hk%d" % (gap, win, size, variant, hk),
                            {"upload": (0, 10, 60, text, len(segs), win, variant == 0 or True)}))
    elif stream == "long":
        # MORE than 256 segments: the sequence numbers wrap
        for (nseg, win, fault) in ([(301, 2, None), (258, 1, None), (301, 1, "dup"), (258, 8, "late")] if quick else
                                   [(257, 1, None), (257, 2, None), (258, 1, None), (301, 2, None), (301, 1, None), (513, 2, None), (513, 8, None), (700, 1, None),
                                    (301, 2, "dup"), (301, 1, "dup"), (513, 2, "late"), (301, 8, "late"), (300, 2, "dup0")]):
            text = "".join(chr(97 + (i * 7) % 26) for i in range(nseg * 30 - 40))
            segs = upload(text, 63, 30, win)
            order = list(range(len(segs)))
            if fault == "dup":
                order = order[:256] + [255] + order[256:]            # a duplicate of 255 after it, around the wrap
            elif fault == "dup0":
                order = order[:257] + [256] + order[257:]            # a duplicate of the segment numbered 0 again
            elif fault == "late":
                order = order[:255] + [256, 255, 256] + order[257:]  # 256 overtakes 255, then both in order
            sc = [(0 if i else 0, 10, segs[j], False, 0) for i, j in enumerate(order)]
            # paced: one second every 40 segments, never near the receiver's 4 x T_seg
            sc = [((1 if (i and i % 40 == 0) else 0),) + e[1:] for i, e in enumerate(sc)]
            out.append(({"ndev": 1}, sc, "long/%d-w%d-%s" % (len(segs), win, fault or "clean"),
                        {"upload": (0, 10, 63, text, len(segs), win, fault is None)}))
    elif stream == "two":
        # TWO / THREE devices in one process: colliding invoke ids, an upload to one while requests go to the other
        text = "two devices " * 5
        for (ndev, own) in ((2, False), (3, False), (2, True)):
            segs = upload(text, 64, 12, 2)
            for variant in range(4):
                sc = []
                other = 1
                for i, sg in enumerate(segs):
                    sc.append((1 if i else 0, 10, sg, False, 0))
                    if variant in (0, 2) and i == 1:
                        sc.append((0, 10, rp[:4] + bytes([64]) + rp[5:], False, other))      # same station, SAME invoke id, other device
                    if variant in (1, 2) and i == 2:
                        sc.append((0, 11, rp[:4] + bytes([64]) + rp[5:], False, other))
                        sc.append((0, 11, rp[:4] + bytes([64]) + rp[5:], False, 0))
                    if variant == 3 and i == 1:
                        sc.append((0,) + stray(65, 10) + (False, other))                       # half-open in B ...
                        sc.append((0, 10, rp[:4] + bytes([65]) + rp[5:], False, 0))            # ... same id asked of A
                        sc.append((0, 10, T["whois"], True, 0))
                    if ndev == 3 and i == 3:
                        sc.append((0, 12, T["rpm"][:4] + bytes([64]) + T["rpm"][5:], False, 2))
                out.append(({"ndev": ndev, "own_lans": own}, sc, "two/%d%s-v%d" % (ndev, "lans" if own else "", variant),
                            {"upload": (0, 10, 64, text, len(segs), 2, True)}))
        # the same stray first segment to one device, a valid request with that id to the other, both orders
        for a, b in ((0, 1), (1, 0)):
            sc = [(0,) + stray(66, 10) + (False, a), (0, 10, rp[:4] + bytes([66]) + rp[5:], False, b),
                  (1, 10, rp[:4] + bytes([66]) + rp[5:], False, b), (0, 11, rp[:4] + bytes([66]) + rp[5:], False, a)]
            out.append(({"ndev": 2}, sc, "two/stray-%d%d" % (a, b), {}))
    elif stream == "iam":
        # the application keeps a device-information cache from the I-Ams it hears: I-Am frames of the requesting
        # station (same and changed capabilities) and of other stations at EVERY position of a segmented request
        from bacpypes.apdu import IAmRequest, UnconfirmedRequestPDU

        def iam(instance, maxapdu, seg):
            r = IAmRequest(iAmDeviceIdentifier=("device", instance), maxAPDULengthAccepted=maxapdu,
                           segmentationSupported=seg, vendorID=15)
            x = UnconfirmedRequestPDU()
            r.encode(x)
            return b"\x01\x00" + bytes([0x10, 0x00]) + bytes(x.pduData)
        kinds = [("dcc", T["dcc"][6:], 17, "simple", None), ("wp", T["wp"][6:], 15, "error", None),
                 ("awf", None, 7, "complex", "iam upload " * 3), ("rpm", T["rpm"][6:], 14, "complex", None)]
        pre = [[], [(0, 10, iam(10, 1024, "segmentedBoth"), False, 0)], [(0, 10, iam(10, 50, "noSegmentation"), False, 0)]]
        mids = [(10, iam(10, 1024, "segmentedBoth")), (10, iam(10, 480, "segmentedTransmit")), (10, iam(10, 50, "noSegmentation")),
                (11, iam(11, 206, "segmentedReceive"))]
        for (kn, body, svc, want, text) in kinds:
            segs = upload(text, 68, (2 if kn == "dcc" else 7) if body is not None else 12, 2, svc=svc, body=body)
            n = len(segs)
            for pi, p0 in enumerate(pre):
                for mi, (mst, mfr) in enumerate(mids):
                    if quick and not ((kn in ("dcc", "wp") and (pi + mi) % 2 == 0 and pi > 0) or (pi, mi) == (1, 1)):
                        continue
                    for pos in range(1, n):
                        for gap in ((0, 1) if not quick else (pos % 2,)):
                            sc = list(p0)
                            for i, sg in enumerate(segs):
                                if i == pos:
                                    sc.append((gap, mst, mfr, bool((pos + mi) % 2), 0))
                                sc.append((gap if i else (1 if p0 else 0), 10, sg, False, 0))
                            sc.append((1, 10, iam(10, 1024, "segmentedBoth"), False, 0))
                            sc.append((0, 11, rp[:4] + bytes([69]) + rp[5:], False, 0))
                            out.append(({"ndev": 1, "iam": True}, sc, "iam/%s-p%d-m%d-at%d-g%d" % (kn, pi, mi, pos, gap),
                                        {"upload": (0, 10, 68, text, n, 2, False, want)}))
        # two devices in one process, both hearing the (broadcast) I-Ams
        segs = upload(None, 68, 1, 2, svc=17, body=T["dcc"][6:])
        for pos in range(1, len(segs)):
            sc = [(0, 10, iam(10, 1024, "segmentedBoth"), True, 0)]
            for i, sg in enumerate(segs):
                if i == pos:
                    sc.append((0, 10, iam(10, 480, "segmentedBoth"), True, 0))
                    sc.append((0, 10, rp[:4] + bytes([68]) + rp[5:], False, 1))
                sc.append((1 if i else 0, 10, sg, False, 0))
            out.append(({"ndev": 2, "iam": True}, sc, "iam/two-at%d" % pos, {"upload": (0, 10, 68, None, len(segs), 2, False, "simple")}))
    elif stream == "async":
        # a gateway-style application answers LATER (0.1 / 1 / 2.9 s: within the application timeout; 3.5 s: too late)
        bv = lambda inv, prop=0x55: rp[:4] + bytes([inv]) + rp[5:7] + bytes.fromhex("01400001") + bytes([0x19, prop])
        mv = lambda inv: rp[:4] + bytes([inv]) + rp[5:7] + bytes.fromhex("04c00001") + bytes([0x19, 0x55])
        av = lambda inv: rp[:4] + bytes([inv]) + rp[5:]
        arf = lambda inv: T["arf"][:4] + bytes([inv]) + T["arf"][5:]
        seqs = []
        for base in (0, 1, 2, 3):
            seqs.append([(0, 10, bv(base), False, 0)])
            seqs.append([(0, 10, arf(4 + base), False, 0), (0, 11, mv(8 + base), False, 0), (0, 10, av(40), False, 0)])
            seqs.append([(0, 10, bv(base, 0x09), False, 0)])                       # a property the object does not have: deferred Error
        seqs.append([(0, 10, bv(i), False, 0) for i in range(8)])                  # eight deferred answers outstanding at once
        seqs.append([(0, 10, bv(1), False, 0), (0.5, 10, bv(1), False, 0), (1, 10, av(41), False, 0)])      # retransmission while the answer is pending
        seqs.append([(0, 10, bv(2), False, 0), (1, 10, b"\x01\x00" + bytes([0x70, 2, 0]), False, 0)])     # the client aborts meanwhile
        seqs.append([(0, 10, bv(3), False, 0), (3.2, 10, bv(3), False, 0)])        # asked again after the timeout, before the late answer
        nplain = len(seqs) - 3
        utext = "deferred " * 8
        segs = upload(utext, 67, 20, 2)
        seqs.append([(0 if i == 0 else 1, 10, sg, False, 0) for i, sg in enumerate(segs)] + [(0, 10, bv(1), False, 0)])
        for q_, sq in enumerate(seqs):
            sc = list(sq) + [(10, 12, av(42), False, 0)]          # long after every deferred answer
            special = nplain <= q_ < nplain + 3                   # duplicates / aborts: lockstep decides, not the reply count
            out.append(({"ndev": 1, "deferred": True}, sc, "async/%s%d" % ("special-" if special else "", q_),
                        {"upload": (0, 10, 67, utext, len(segs), 2, True)} if q_ == len(seqs) - 1 else {}))
    elif stream == "dccpw":
        # a device with a DeviceCommunicationControl PASSWORD: timed disables, refused and mutated copies, renewals;
        # afterwards it must be enabled again no later than the LAST ACCEPTED request says
        from bacpypes.apdu import DeviceCommunicationControlRequest, ConfirmedRequestPDU
        from bacpypes.primitivedata import CharacterString

        def dcc(inv, value, minutes=None, password="secret"):
            kw = {"enableDisable": value}
            if minutes is not None:
                kw["timeDuration"] = minutes
            if password is not None:
                kw["password"] = CharacterString(password)
            r = DeviceCommunicationControlRequest(**kw)
            x = ConfirmedRequestPDU()
            r.encode(x)
            return b"\x01\x04" + bytes([0x02, 0x05, inv, 17]) + bytes(x.pduData)
        av = lambda inv: rp[:4] + bytes([inv]) + rp[5:]
        probes = lambda t0: [(t0, 10, av(90), False, 0), (0, 11, T["rp-index"][:4] + bytes([91]) + T["rp-index"][5:], False, 0)]
        good = dcc(80, "disable", 1)
        scs = []
        muts = []
        for pos in range(6, len(good)):
            for v in ((good[pos] ^ 0x01), (good[pos] + 1) & 255, 0x00, 0xFF):
                if v != good[pos]:
                    muts.append(good[:4] + bytes([81]) + good[5:pos] + bytes([v]) + good[pos + 1:])
        muts += [dcc(81, "disable", 1, "secreT"), dcc(81, "disable", 1, None), dcc(81, "disable", 1, ""), dcc(81, "enable", None, "wrong"),
                 dcc(81, "disable", 2, "secrets"), good[:4] + bytes([81]) + good[5:-1], good[:4] + bytes([81]) + good[5:] + b"\x00"]
        if quick:
            muts = muts[::9] + muts[-7:]
        for m in muts:
            # accepted timed disable; 5 s later the mutated copy; after the (longest possible) duration valid requests
            scs.append(([(0, 10, good, False, 0), (5, 11, m, False, 0)] + probes(20) + probes(50) + probes(120), "mut"))
        for value in ("disable", "disableInitiation"):
            for minutes in (1, 2):
                g = dcc(82, value, minutes)
                scs.append(([(0, 10, g, False, 0)] + probes(30) + probes(minutes * 60), "plain"))
                scs.append(([(0, 10, g, False, 0), (10, 10, dcc(83, value, minutes, "nope"), False, 0)] + probes(minutes * 60), "refused"))
                scs.append(([(0, 10, g, False, 0), (40, 10, dcc(83, value, minutes), False, 0)] + probes(minutes * 60 - 30) + probes(45), "renewed"))
                scs.append(([(0, 10, g, False, 0), (10, 10, dcc(83, "enable"), False, 0)] + probes(5) +
                            [(5, 10, dcc(84, value, minutes, "x"), False, 0)] + probes(90), "enabled-then-refused"))
                scs.append(([(0, 10, g, False, 0), (10, 10, dcc(83, value, None), False, 0), (10, 10, dcc(84, value, 1, "bad"), False, 0)] +
                            probes(200), "forever"))
                scs.append(([(0, 10, dcc(83, value, minutes, "bad"), False, 0), (1, 10, g, False, 0), (2, 10, dcc(84, value, 3, None), False, 0),
                             (3, 10, dcc(85, "enable", None, "Secret"), False, 0)] + probes(20) + probes(minutes * 60), "refused-first"))
        for q_, (sc, lab) in enumerate(scs):
            out.append(({"ndev": 1, "password": "secret", "housekeeping": (q_ % 3)}, sc, "dccpw/%s-%d" % (lab, q_), {}))
    return out


def dcc_reference(events, replies_by_event):
    """independent reading of a DeviceCommunicationControl history: -> for every event, is a reply owed?
    A DCC / ReinitializeDevice request is always looked at.  An ACCEPTED DCC (answered with a SimpleACK) sets the
    gate: enable; or disable / disable-initiation, for its time duration (minutes) if it has one, else for good.
    A refused one changes nothing.  Only 'disable' silences the device."""
    state, until = 0, None
    t = 0.0
    owed = []
    for i, (delay, src, octets, bc, k) in enumerate(events):
        t += delay
        if until is not None and t >= until:
            state, until = 0, None
        kind, inv = C.classify(octets)
        if kind != "confirmed":
            owed.append(False)
            continue
        svc = octets[5]
        owed.append(state != 1 or svc in (17, 20))
        if svc == 17 and replies_by_event.get(i) == 2:
            body = octets[6:]
            minutes, value, j = None, 0, 0
            if j < len(body) and body[j] & 0xF8 == 0x08:                 # [0] time duration
                n = body[j] & 7
                minutes = int.from_bytes(body[j + 1:j + 1 + n], "big")
                j += 1 + n
            if j < len(body) and body[j] & 0xF8 == 0x18:                 # [1] enable-disable
                n = body[j] & 7
                value = int.from_bytes(body[j + 1:j + 1 + n], "big")
            if value == 0:
                state, until = 0, None
            else:
                state = value if value in (1, 2) else 0
                until = (t + minutes * 60.0) if minutes else None
    return owed


def script_shard(ctx, spec):
    stream, names = spec[0], spec[1]
    model_ok = spec[2] if len(spec) > 2 else True
    Device = C.build()
    T = C.templates()
    rng = ctx.sub_rng("c10/%s" % stream)
    allsc = scripts(ctx, rng, T, stream)
    k, n = int(names[0]), int(names[1])
    for (wcfg, sc, label, expect) in allsc[k::n]:
        run_script(ctx, Device, stream, wcfg, sc, label, expect, model_ok)


def run_script(ctx, Device, stream, wcfg, sc, label, expect, model_ok):
    world = World(Device, wcfg.get("ndev", 1), wcfg.get("own_lans", False), wcfg.get("housekeeping", False),
                  wcfg.get("password"), wcfg.get("deferred", False), wcfg.get("iam", False))
    rec = world.run(sc)
    case = {"stream": "model/" + stream, "template": label, "world": wcfg,
            "script": [list(e[:2]) + [e[2].hex()] + list(e[3:]) if e[0] != "rearm" else ["rearm"] for e in sc],
            "expect": {k: list(v) for k, v in expect.items()}}
    # ---- the property on the real devices
    if not rec["terminated"]:
        ctx.fail("nontermination", case, "still busy after the loop limit")
    if rec["unexpected_tasks"]:
        ctx.fail("residue-timer", case, "still scheduled when every transaction must be over: %r" % (rec["unexpected_tasks"],),
                 errors=rec["errors"])
    for j, rd in enumerate(rec["devices"]):
        if rd["residue"]["client"] or rd["residue"]["server"] or rd["residue"]["ssm_timers"]:
            ctx.fail("residue-transaction", case, "device %d: leftover after quiescence: %r" % (j, rd["residue"]), errors=rec["errors"])
    events = [e for e in sc if e[0] != "rearm"]
    # every well-framed request gets exactly one reply FROM THE DEVICE IT WAS SENT TO, to its sender
    skip = set()
    if stream == "dccpw":
        # which DCC requests were accepted is read off the replies; everything else by the independent reference
        rd0 = rec["devices"][0]
        rtype = {}
        recvs = [st for st in rd0["steps"] if st["kind"] == "recv"]
        for i, st in enumerate(recvs):
            hs = [C.decode_apdu_header(bytes.fromhex(o)) for (_d, o) in st["out"]]
            hs = [h for h in hs if h and h.get("type") in C.REPLY_TYPES]
            if hs:
                rtype[i] = hs[0]["type"]
        for i, ow in enumerate(dcc_reference(events, rtype)):
            if not ow:
                skip.add(i)
    if stream == "async":
        # an answer deferred beyond the application timeout comes too late: the transaction is gone
        for i, (delay, src, octets, bc, k) in enumerate(events):
            kind, inv = C.classify(octets)
            if kind == "confirmed" and DEFER[inv % 4] > 3.0 and (octets[7:11] in (bytes.fromhex("01400001"), bytes.fromhex("04c00001"))
                                                                or octets[5] == 6):
                skip.add(i)
    for j, rd in enumerate(rec["devices"]):
        owed = collections.Counter()
        for i, (delay, src, octets, bc, k) in enumerate(events):
            kind, inv = C.classify(octets)
            if kind == "confirmed" and k == j and not bc and i not in skip:
                owed[(src, inv)] += 1
        got = collections.Counter()
        segfirst = set()
        for (dst, o) in rd["sent"]:
            h = C.decode_apdu_header(bytes.fromhex(o))
            if h and h.get("type") in (2, 3, 5, 6) and not (h.get("seg") and h.get("seq")) and dst is not None:
                # (aborts are not counted: a stray first segment is legitimately never answered;
                #  the retransmitted first segment of an unacknowledged segmented answer counts once)
                key = (int(dst, 16), h.get("invoke"))
                if h.get("seg"):
                    if key in segfirst:
                        continue
                    segfirst.add(key)
                got[key] += 1
        up = expect.get("upload")
        if up and up[0] == j:
            owed[(up[1], up[2])] += 1
        if stream == "async" and "special" not in label:
            # ... and says exactly what the synchronous device says to the same request
            for i, (delay, src, octets, bc, k) in enumerate(events):
                kind, inv = C.classify(octets)
                if kind != "confirmed" or i in skip:
                    continue
                mine = [bytes.fromhex(o)[2:] for (dst, o) in rd["sent"] if dst == "%02x" % src
                        and (C.decode_apdu_header(bytes.fromhex(o)) or {}).get("invoke") == inv]
                if mine != [fresh_apdu(octets)]:
                    ctx.fail("async-reply", case, "request (invoke %d) answered %r; the synchronous device answers %r" % (
                        inv, [m.hex() for m in mine], fresh_apdu(octets) and fresh_apdu(octets).hex()), errors=rec["errors"])
        if dict(owed) != dict(got) and "special" not in label:
            ctx.fail("wrong-replies", case, "device %d owes (station, invoke): count %r and gave %r" % (
                j, sorted(owed.items()), sorted(got.items())), errors=rec["errors"])
    up = expect.get("upload")
    if up:
        j, station, inv, text, nseg, win, clean = up[:7]
        kind_want = up[7] if len(up) > 7 else "complex"
        rd = rec["devices"][j]
        asked = [e for st in rd["steps"] if st["kind"] == "recv" for e in st["entries"] if not e.get("own")]
        mine = [st for st in rd["steps"] if st["kind"] == "recv" and st["src"] == station and
                (C.classify(bytes.fromhex(st["hex"])) == ("segment", inv))]
        execd = [e for st in mine for e in st["entries"]]
        written = text is None or rd["description"].startswith(text)
        if len(execd) != 1 or execd[0].get("k") != kind_want or not written:
            ctx.fail("upload", case, "the %d-segment request was executed %d time(s) %r; file %s" % (
                nseg, len(execd), [dict(e, hex=e.get("hex", "")[:16]) for e in execd[:2]], "written" if written else "NOT written"),
                errors=rec["errors"])
        if clean:
            acks = []
            for (dst, o) in rd["sent"]:
                h = C.decode_apdu_header(bytes.fromhex(o))
                if h and h.get("type") == 4 and h.get("invoke") == inv and dst == "%02x" % station:
                    acks.append((h.get("seq"), bool(h.get("nak")), bool(h.get("srv"))))
            want = [(q, False, True) for q in expected_acks(nseg, win)]
            if acks != want:
                d = next((i for i, (a, b) in enumerate(zip(acks, want)) if a != b), min(len(acks), len(want)))
                ctx.fail("segment-acks", case, "the %d-segment upload (window %d) was acknowledged %d times instead of %d; first difference at ack %d: %r / %r" % (
                    nseg, win, len(acks), len(want), d, acks[d:d + 2], want[d:d + 2]), errors=rec["errors"])
    ctx.count("model/" + stream, (label.split("-")[0], len(sc) // 50))
    if not model_ok:
        return
    # ---- lockstep: one model per device (they share nothing)
    drv = core.Driver("drv_c10")
    for j, (rig, rd) in enumerate(zip(world.rigs, rec["devices"])):
        if rd["delivered"] != rd["expected"] or rd["late_after_script"]:
            ctx.count("model/skipped", "undelivered" if rd["delivered"] != rd["expected"] else "late-answer-after-script")
            continue
        sops, at = script_ops(rd)
        allrep = drv.ask([{"op": "reset", "cfg": rig.cfg()}] + sops)[1:]
        for r in allrep:
            if r.get("r") != "ok":
                raise core.Infra("model driver: %r" % (r,))
        mrep = [allrep[i] for i in at]
        iv, mv = [], []
        for st, m in zip(rd["steps"], mrep):
            a = {"out": st["out"]}
            b = {"out": m["out"]}
            if st["kind"] == "recv":
                ents = st["entries"]
                e = ents[0] if ents else None
                if e is None:
                    a["asked"] = 0
                elif e["k"] in ("silent", "other"):
                    a["asked"] = 1          # the model is told: asked, no answer before the helper returned
                elif e.get("own"):
                    a["asked"] = m["asked"] if (e["k"] == "reject" and e.get("r") == 0) else 0
                else:
                    a["asked"] = 1
                b["asked"] = m["asked"]
            if "sv" in st:
                a["sv"], b["sv"] = st["sv"], m["sv"]
                a["dcc"], b["dcc"] = st["dcc"], m["dcc"]
            iv.append(a)
            mv.append(b)
            ctx.count("model/" + stream + "-steps", (st["kind"], m.get("br")))
        q = mrep[-1]
        iv.append({"q": sorted(rd["fin"]["out"], key=by_invoke), "sv": rd["fin"]["sv"], "dcc": rd["dcc"]})
        mv.append({"q": sorted(q["out"], key=by_invoke), "sv": q["sv"], "dcc": q["dcc"]})
        if core.canon(iv) != core.canon(mv):
            kx = next((i for i, (a, b) in enumerate(zip(iv, mv)) if core.canon(a) != core.canon(b)), None)
            ctx.disagree("model/" + stream, dict(case, device=j), {"at": kx, "impl": iv[kx], "errors": rec["errors"]},
                         {"at": kx, "model": mv[kx]})


def replay_script(ctx, case):
    sc = [tuple(e[:2]) + (bytes.fromhex(e[2]),) + tuple(e[3:]) if e[0] != "rearm" else ("rearm",) for e in case["script"]]
    expect = {k: tuple(v) for k, v in (case.get("expect") or {}).items()}
    run_script(ctx, C.build(), case["stream"][6:], case.get("world") or {}, sc, case.get("template") or "replay", expect,
               bool(getattr(ctx, "model_ok", False)))


# ------------------------------------------------------------------ one shard

SCRIPT_STREAMS = ("slow", "long", "two", "async", "dccpw", "iam")


def shard(ctx, spec):
    stream, names = spec[0], spec[1]
    if stream in SCRIPT_STREAMS:
        return script_shard(ctx, spec)
    model_ok = spec[2] if len(spec) > 2 else True
    Device = C.build()
    T = C.templates()
    rng = ctx.sub_rng("c10/%s/%s" % (stream, ",".join(names)))
    if stream == "shapes":
        bl = [(x[0], x[1], None, len(x) > 2 and x[2]) for x in shapes(ctx, rng, T)]
        if names != ["all"]:
            # split into shards at scenario boundaries (a kept step stays with its predecessor)
            k, n = int(names[0]), int(names[1])
            groups = []
            for b in bl:
                if b[3] and groups:
                    groups[-1].append(b)
                else:
                    groups.append([b])
            bl = [b for g in groups[k::n] for b in g]
    elif stream == "corpus":
        bl = [b + (False,) for b in corpus_batches()]
    elif stream == "history":
        bl = [(fr, lab, None, False) for (fr, lab) in histories(ctx, rng, T, 150 if ctx.quick else 12000)]
    else:
        bl = [(fr, lab, pos, False) for (fr, lab, pos, _v) in P.batches(ctx, rng, stream, names, T)]
    reqs = []
    plan = []           # per batch: (frames, label, pos, record, index of the first model request, earlier steps)
    rig = None
    used = 0
    dirty = False
    past = []
    for frames, label, pos, keep in bl:
        frames = norm(frames)
        if not (keep and rig is not None):
            if rig is None or used >= 10 or dirty:
                rig = Rig(Device)
                used = 0
                reqs.append({"op": "reset", "cfg": rig.cfg()})
            past = []
        used += 1
        if label.startswith("helper/"):
            rig.dev.app.do_ConfirmedPrivateTransferRequest = faulty_helper(rig.dev.app)
        try:
            rec = rig.batch(frames)
        finally:
            rig.dev.app.__dict__.pop("do_ConfirmedPrivateTransferRequest", None)
        first = len(reqs)
        reqs.extend(model_ops(frames, rec))
        plan.append((frames, label, pos, rec, first, list(past)))
        past.append(frames)
        # what the next scenario must not inherit (a replay starts from a fresh device)
        dirty = bool(rec["dcc"] != 0 or rec["iam"] or rec["residue"]["client"] or rec["residue"]["server"]
                     or rec["fin"]["net"] != [None, None, [None]] or rec["paths"])
    replies = core.Driver("drv_c10").ask(reqs) if model_ok else None
    for frames, label, pos, rec, first, hist in plan:
        judge(ctx, stream, frames, label, pos, rec,
              replies[first:first + len(frames) + 1] if replies is not None else None, hist)


def model_ops(frames, rec):
    ops = []
    for (src, fr, bc), per in zip(frames, rec["per"]):
        ops.append({"op": "recv", "src": "%02x" % src, "bc": bc, "hex": fr.hex(), "app": answers_of(per["entries"])})
    ops.append({"op": "quiesce"})
    ops.append({"op": "dcc", "d": rec["dcc"]})
    return ops


COUNTED = ("valid", "helper", "burst", "dup", "followup", "afternet")        # every request of the batch completes: n requests, n replies
ANSWERED = COUNTED + ("npci", "segresp", "hostile")               # at least one reply per invoke id


_FRESH = {}
C_BOUND = [90.0]


def fresh_apdu(local_frame):
    """APDU octets of the reply of a fresh device to a request sent by a station of its own LAN"""
    if local_frame not in _FRESH:
        dev = C.build()()
        out = dev.inject([local_frame])
        r = [raw for (h, raw) in out["replies"] if h and h.get("type") in C.REPLY_TYPES]
        _FRESH[local_frame] = r[0][2:] if r else None
    return _FRESH[local_frame]


def classify_routed(f):
    """(invoke id, snet, sadr) of an unsegmented confirmed request delivered by a router
    (SNET/SADR present, no DNET, application message, intact fixed header), else None"""
    if len(f) < 5 or f[0] != 1 or (f[1] & 0xA8) != 0x08:
        return None
    slen = f[4]
    snet = (f[2] << 8) | f[3]
    if slen == 0 or snet == 0xFFFF or len(f) < 5 + slen + 4:
        return None
    a = f[5 + slen:]
    if a[0] >> 4 != 0 or a[0] & 0x08:
        return None
    return (a[2], snet, bytes(f[5:5 + slen]))


def oracle(ctx, stream, case, frames, label, rec):
    """the property evaluated on what the REAL device did with one batch (no model involved)"""
    if rec["unexpected_tasks"]:
        ctx.fail("residue-timer", case, "still scheduled %.0f s after the batch, when every transaction must be over: %r" % (
            0.0 + C_BOUND[0], rec["unexpected_tasks"]), errors=rec["errors"])
    if stream not in ("shapes", "history", "replay"):
        return
    group = label.split("/")[0]
    if not rec["terminated"]:
        ctx.fail("nontermination", case, "device still busy after the loop limit")
    if rec["residue"]["client"] or rec["residue"]["server"] or rec["residue"]["ssm_timers"]:
        ctx.fail("residue-transaction", case, "leftover after quiescence: %r" % (rec["residue"],), errors=rec["errors"])
    allout = [o for per in rec["per"] for o in per["out"]] + rec["fin"]["out"]
    if group in ANSWERED and label not in ("segresp/dup-request",):
        hs = [C.decode_apdu_header(bytes.fromhex(o)) for (_d, o) in allout]
        answered = collections.Counter(h.get("invoke") for h in hs if h and h.get("type") in C.REPLY_TYPES
                                       and not (h.get("seg") and h.get("seq")))
        owed = collections.Counter(inv for (kind, inv) in (C.classify(f) for (_s, f, _b) in frames) if kind == "confirmed")
        for inv, n in sorted(owed.items()):
            # each request completes before the next one of the same instant is looked at
            if answered[inv] < (n if group in COUNTED else 1):
                ctx.fail("silence", case, "%d confirmed request(s) with invoke %d got %d replies" % (n, inv, answered[inv]),
                         errors=rec["errors"])
    if group == "stranger":
        # the transfer to station 10 (invoke 45, 7 segments) is nobody else's business
        to10 = [C.decode_apdu_header(bytes.fromhex(o)) for (dst, o) in allout if dst == "%02x" % C.PEER]
        segs = set(h.get("seq") for h in to10 if h and h.get("type") == 3 and h.get("seg") and h.get("invoke") == 45)
        final = [h for h in to10 if h and h.get("type") == 3 and h.get("seg") and h.get("invoke") == 45 and not h.get("mor")]
        aborted = [h for h in to10 if h and h.get("type") == 7]
        if aborted:
            ctx.fail("foreign-abort", case, "station 10 received an abort it did not cause: %r" % (aborted[:1],), errors=rec["errors"])
        elif label != "stranger/then-silence" and (segs != set(range(7)) or not final):
            ctx.fail("transfer-disturbed", case, "the segmented answer to station 10 did not complete: segments %r, final %d" % (
                sorted(segs), len(final)), errors=rec["errors"])
    if group in ("routed", "afternet"):
        own = rec["mid"]["net"][0]
        # the reply to a routed request goes, at link level, to the station that delivered THAT request,
        # with DNET/DADR = the request's SNET/SADR, exactly once
        for (src, f, _bc) in frames:
            r = classify_routed(f)
            if r is None:
                continue
            inv, snet, sadr = r
            hits, segmented = [], False
            for (dst, o) in allout:
                raw = bytes.fromhex(o)
                h = C.decode_apdu_header(raw)
                if h and h.get("type") in C.REPLY_TYPES and h.get("invoke") == inv and C.reply_route(raw) == (snet, sadr):
                    hits.append(dst)
                    segmented = segmented or bool(h.get("seg"))
            want = ["%02x" % src]
            same = [1 for (s2, f2, _b2) in frames if classify_routed(f2) == r]
            if segmented:
                hits = sorted(set(hits))          # segments and their retransmissions: all to that station
            if snet == own:
                continue                          # a source network equal to the LAN's own learned number is a path error
            if len(same) == 1 and hits != want:
                ctx.fail("routed-reply", case, "routed request (invoke %d, network %d via station %d) was answered to %r" % (
                    inv, snet, src, hits), errors=rec["errors"])
            elif len(same) == 1 and group == "afternet":
                # ... and says what a fresh device says to the same request asked locally
                slen = f[4]
                local = bytes([f[0], f[1] & ~0x08]) + f[5 + slen:]
                got = [bytes.fromhex(o) for (dst, o) in allout if C.reply_route(bytes.fromhex(o)) == (snet, sadr)
                       and (C.decode_apdu_header(bytes.fromhex(o)) or {}).get("invoke") == inv]
                apdu = got[0][6 + len(sadr):] if got else None
                if apdu != fresh_apdu(local):
                    ctx.fail("routed-reply", case, "routed request (invoke %d, network %d) answered %r, a fresh device answers %r" % (
                        inv, snet, apdu and apdu.hex(), fresh_apdu(local) and fresh_apdu(local).hex()))
    if group == "valid":
        # a request produced by the library's own encoder must reach the application
        e = rec["per"][0]["entries"]
        if e and e[0].get("own"):
            ctx.fail("valid-request-rejected", case, "the stack itself answered a valid %s request with %r" % (label[6:], e[0]))


def judge(ctx, stream, frames, label, pos, rec, mrep, hist=()):
    case = {"stream": "model/" + stream, "template": label, "pos": pos,
            "frames": [[src, f.hex(), bc] for (src, f, bc) in frames]}
    if hist:
        case["history"] = [[[src, f.hex(), bc] for (src, f, bc) in step] for step in hist]
    oracle(ctx, stream, case, frames, label, rec)
    if mrep is None:
        ctx.count("impl-only/" + stream, label)
        return
    for r in mrep:
        if r.get("r") != "ok":
            raise core.Infra("model driver: %r" % (r,))
    if rec["iam"] or rec["delivered"] != len(frames):
        ctx.count("model/skipped", "iam" if rec["iam"] else "undelivered")
        return
    impl_view, model_view = [], []
    for i, ((src, fr, _bc), per, m) in enumerate(zip(frames, rec["per"], mrep)):
        asked_m = m["asked"]
        ents = per["entries"]
        if len(ents) > 1:
            ctx.disagree("model/" + stream, case, {"frame": i, "entries": ents}, "more than one ASAP indication for one datagram")
            return
        e = ents[0] if ents else None
        if e is None:
            asked_i = 0
        elif e["k"] in ("silent", "other"):
            asked_i = 1 if e["k"] == "silent" else "application: unknown PDU"
        elif e.get("own") and e["k"] == "reject" and e.get("r") == 0:
            # RejectOther from the ASAP's catch-all: the real decoder tripped over a primitive value (e.g. a
            # character string ill-formed in its announced character set) that the model's decoder, which
            # checks leaves for tag and length only (C03), accepts: taken as the application's answer
            asked_i = asked_m
            if asked_m:
                ctx.count("model/leaf-reject", (label.split("/")[0], e.get("r")))
        elif e.get("own"):
            asked_i = 0
        else:
            asked_i = 1
        kind, inv = C.classify(fr)
        impl_view.append({"out": per["out"], "asked": asked_i, "wf": inv if kind == "confirmed" else None,
                          "hd": [ref_hdr(o) for (_d, o) in m["out"]]})
        model_view.append({"out": m["out"], "asked": asked_m, "wf": m["wf"], "hd": m["hd"]})
        sig = (label, "hdr" if (pos is not None and pos < 6) else "body", m.get("br"))
        ctx.count("model/" + stream, sig)
    last = mrep[len(frames) - 1]
    q = mrep[len(frames)]
    impl_view.append({"mid": rec["mid"]["sv"], "cl": rec["mid"]["cl"], "dcc": rec["mid"]["dcc"], "net": rec["mid"]["net"]})
    model_view.append({"mid": last["sv"], "cl": last["cl"], "dcc": last["dcc"], "net": last["net"] + [[last["net"][0]]]})
    qi, qm = rec["fin"]["out"], q["out"]
    if stream == "history":
        # transactions whose timers are due at the same instant fire in task-installation order in the
        # scheduler and in list order in the model: compare per transaction (they are independent, C11)
        qi, qm = sorted(qi, key=by_invoke), sorted(qm, key=by_invoke)
    # timers other than the transactions' still pending after the bounded settle time (the application's
    # DeviceCommunicationControl re-enable timer aside): the model knows one, the Network-Number-Is answer
    pend_i = sorted(d[0] for d in rec["late_tasks"] if not d[0].endswith(":enable_communications"))
    pend_m = ["_FunctionTask:network_number_is"] if q.get("pend") else []
    impl_view.append({"q": qi, "sv": rec["fin"]["sv"], "cl": rec["fin"]["cl"], "net": rec["fin"]["net"], "pend": pend_i,
                      "dcc": rec["dcc"]})
    model_view.append({"q": qm, "sv": q["sv"], "cl": q["cl"], "net": q["net"] + [[q["net"][0]]], "pend": pend_m,
                       "dcc": q["dcc"]})
    ctx.count("model/quiesce", (len(rec["mid"]["sv"]), q.get("br")))
    if core.canon(impl_view) != core.canon(model_view):
        # keep the first difference readable
        k = next((j for j, (a, b) in enumerate(zip(impl_view, model_view)) if core.canon(a) != core.canon(b)), None)
        ctx.disagree("model/" + stream, case, {"at": k, "impl": impl_view[k], "errors": rec["errors"]},
                     {"at": k, "model": model_view[k]})
        reference_oracle(ctx, case, frames, rec, mrep)


def reference_oracle(ctx, case, frames, rec, mrep):
    """focused failing-input search on a disagreeing batch: evaluate the property's clauses on the
    implementation's observations, with the (proved) model decoder as the reference for 'malformed'"""
    out_all = [o for per in rec["per"] for o in per["out"]] + rec["fin"]["out"]
    hdrs = [C.decode_apdu_header(bytes.fromhex(o)) for (_d, o) in out_all]
    hdrs = [h for h in hdrs if h and h.get("type") in C.REPLY_TYPES]
    for i, ((_src, fr, _bc), per, m) in enumerate(zip(frames, rec["per"], mrep)):
        kind, inv = C.classify(fr)
        if kind != "confirmed":
            continue
        mine = [h for h in hdrs if h.get("invoke") == inv]
        mh = [C.decode_apdu_header(bytes.fromhex(o)) for (_d, o) in m["out"]]
        mh = [h for h in mh if h and h.get("type") in C.REPLY_TYPES and h.get("invoke") == inv]
        if mh and not mine and m["dcc"] == 0 and rec["mid"]["dcc"] == 0:
            ctx.fail("silence", case, "confirmed request (invoke %d) got no reply; the model answers %r" % (
                inv, C.REPLY_TYPES[mh[0]["type"]]), errors=rec["errors"])
        elif mh and m["asked"] == 0 and mh[0]["type"] in (6, 7) and mine and mine[0]["type"] in (2, 3, 5):
            ctx.fail("malformed-acknowledged", case,
                     "request (invoke %d) whose parameters do not decode (model: %s reason %d) was answered with %s" % (
                         inv, C.REPLY_TYPES[mh[0]["type"]], mh[0].get("reason", -1), C.REPLY_TYPES[mine[0]["type"]]))
    if rec["residue"]["client"] or rec["residue"]["server"] or rec["residue"]["ssm_timers"]:
        ctx.fail("residue-transaction", case, "leftover after quiescence: %r" % (rec["residue"],), errors=rec["errors"])
    if not rec["terminated"]:
        ctx.fail("nontermination", case, "device still busy after the loop limit")


def ref_hdr(octets_hex):
    """what Device.replyHdr must read off a frame, by the harness' independent decoder: a reply on the
    local network (plain NPCI) as [type, invoke, segmented, service choice | reason]"""
    b = bytes.fromhex(octets_hex)
    if len(b) < 5 or b[0] != 1 or (b[1] & 0xFC):
        return None
    h = C.decode_apdu_header(b)
    if not h or h.get("type") not in C.REPLY_TYPES:
        return None
    if h["type"] == 3 and h.get("seg") and len(b) < 7:
        return None
    return [h["type"], h["invoke"], bool(h.get("seg")), h["reason"] if h["type"] in (6, 7) else h["service"]]


def by_invoke(o):
    h = C.decode_apdu_header(bytes.fromhex(o[1]))
    return (h or {}).get("invoke", -1)


def corpus_batches():
    import os, json
    d = os.path.join(core.VERIF, "corpus", "C10")
    out = []
    if os.path.isdir(d):
        for fn in sorted(os.listdir(d)):
            rec = json.load(open(os.path.join(d, fn)))
            out.append((unhex(rec["frames"]), "corpus/" + fn, None))
    return out


def specs(ctx):
    ok = bool(getattr(ctx, "model_ok", False))
    s = [("corpus", ["all"], ok)]
    s += [tuple(x) + (ok,) for x in P.specs(ctx)]
    s += [("shapes", [str(k), "4"], ok) for k in range(4)]
    s += [("history", ["h%d" % k], ok) for k in range(4 if ctx.quick else 16)]
    return s


def run(ctx):
    """with the model driver: lockstep + oracles; without it (broken build): the oracles alone"""
    ok = bool(getattr(ctx, "model_ok", False))
    sp = [("slow", [str(k), "3"], ok) for k in range(3)] + [("long", [str(k), "4"], ok) for k in range(4)]
    sp += [("two", [str(k), "3"], ok) for k in range(3)]
    sp += [("async", [str(k), "2"], ok) for k in range(2)] + [("dccpw", [str(k), "4"], ok) for k in range(4)]
    sp += [("iam", [str(k), "4" if ctx.quick else "12"], ok) for k in range(4 if ctx.quick else 12)]
    # the longest shards first, all in one pool
    core.run_shards(ctx, "harness.c10_model", "shard", sp + specs(ctx))


def unhex(frames):
    return norm([(f[0], bytes.fromhex(f[1])) + tuple(f[2:3]) if isinstance(f, (list, tuple)) else bytes.fromhex(f)
                 for f in frames])


def replay_frames(ctx, frames, label="replay", stream="replay", history=()):
    """one batch (after the earlier steps of its scenario) on a fresh device: the property oracle and the
    model-vs-implementation comparison (used by c10.replay)"""
    Device = C.build()
    rig = Rig(Device)
    reqs = [{"op": "reset", "cfg": rig.cfg()}]
    for step in history:
        rec0 = rig.batch(step)
        reqs.extend(model_ops(step, rec0))
    if label.startswith("helper/"):
        rig.dev.app.do_ConfirmedPrivateTransferRequest = faulty_helper(rig.dev.app)
    rec = rig.batch(frames)
    first = len(reqs)
    reqs.extend(model_ops(frames, rec))
    replies = core.Driver("drv_c10").ask(reqs) if getattr(ctx, "model_ok", False) else None
    judge(ctx, stream, frames, label, None, rec,
          replies[first:first + len(frames) + 1] if replies is not None else None, list(history))
