#!/usr/bin/env python3
"""tools/seedall.py <prop> <dir containing out/<i>/{patch.diff,demo.py,meta.json}> [tier] [index offset]
Confirms each seeded change in a scratch worktree of /repo HEAD, runs ./check against the patched tree
(VERIF_REPO), and records it under /verif/seeded/<prop>-<i>/ (patch.diff, demo.py, meta.json)."""
import json, os, re, shutil, subprocess, sys
prop, base = sys.argv[1], sys.argv[2]
tier = sys.argv[3] if len(sys.argv) > 3 else "quick"
offset = int(sys.argv[4]) if len(sys.argv) > 4 else 0
out = os.path.join(base, "out")
for i in sorted(os.listdir(out)):
    d = os.path.join(out, i)
    if not os.path.exists(os.path.join(d, "patch.diff")):
        continue
    wt = "/tmp/seedwt/%s-%s-%d" % (prop, i, os.getpid())
    os.makedirs("/tmp/seedwt", exist_ok=True)
    subprocess.run(["git", "-C", "/repo", "worktree", "add", "--detach", wt, "HEAD"], capture_output=True, check=True)
    try:
        env = dict(os.environ, PYTHONPATH=wt + "/py34")
        d0 = subprocess.run(["/venv/bin/python", os.path.join(d, "demo.py")], cwd=wt, env=env, capture_output=True).returncode
        ap = subprocess.run(["git", "apply", os.path.join(d, "patch.diff")], cwd=wt, capture_output=True, text=True)
        if ap.returncode != 0:
            print(prop, i, "PATCH DOES NOT APPLY", ap.stderr[:200]); continue
        d1 = subprocess.run(["/venv/bin/python", os.path.join(d, "demo.py")], cwd=wt, env=env, capture_output=True).returncode
        suite = subprocess.run(["/venv/bin/python", "-m", "pytest", "-q", "-p", "no:cacheprovider", "tests"], cwd=wt, env=env,
                               capture_output=True, text=True).stdout.strip().split("\n")[-1]
        env2 = dict(os.environ, VERIF_REPO=wt)
        chk = subprocess.run(["./check", prop, "--tier", tier], cwd="/verif", env=env2, capture_output=True, text=True)
        tail = [l for l in chk.stdout.strip().split("\n") if l][-3:]
        viol = [l for l in tail if l.startswith("VIOLATION")]
        confirmed = d0 == 0 and d1 != 0 and "405 passed" in suite
        detected = chk.returncode == 1 and bool(viol)
        with_input = detected and "no-failing-input-found" not in viol[0]
        kinds = None
        if detected:
            m = re.search(r"replay=(\S+)", viol[0])
            if m and os.path.exists(os.path.join("/verif", m.group(1))):
                rp = json.load(open(os.path.join("/verif", m.group(1))))
                f = rp.get("failure") or {}
                kinds = {"kind": f.get("kind"), "what": str(f.get("what"))[:300]} if f else {"broken": rp.get("broken_obligations"), "disagreements": rp.get("disagreement_count")}
        print("%s seed %s: confirmed=%s (demo %d->%d, suite '%s') detected=%s with_failing_input=%s rc=%d" % (
            prop, i, confirmed, d0, d1, suite, detected, with_input, chk.returncode))
        print("    ", tail[-2] if len(tail) > 1 else tail)
        if confirmed:
            dst = "/verif/seeded/%s-%s" % (prop, (int(i) + offset) if i.isdigit() else i)
            os.makedirs(dst, exist_ok=True)
            shutil.copy(os.path.join(d, "patch.diff"), dst)
            shutil.copy(os.path.join(d, "demo.py"), dst)
            meta = {}
            try:
                meta = json.load(open(os.path.join(d, "meta.json")))
            except Exception:
                pass
            meta.update({"property": prop,
                         "origin": "independent sub-agent given only the property text and a scratch worktree",
                         "confirmed": "tools/seedall.py: demo exits 0 on the unchanged tree and %d with the patch; suite with patch: %s" % (d1, suite),
                         "check_run": "VERIF_REPO=<patched worktree> ./check %s --tier %s -> rc %d" % (prop, tier, chk.returncode),
                         "detected": detected, "with_failing_input": with_input, "first_failure": kinds,
                         "check_summary": tail[-2] if len(tail) > 1 else ""})
            json.dump(meta, open(os.path.join(dst, "meta.json"), "w"), indent=1)
    finally:
        subprocess.run(["git", "-C", "/repo", "worktree", "remove", "--force", wt], capture_output=True)
        # the check regenerated lean/BacVerif/Gen/* from the PATCHED tree: restore the committed tables
        subprocess.run(["git", "-C", "/verif", "checkout", "--", "lean/BacVerif/Gen"], capture_output=True)
