#!/usr/bin/env python3
"""Regenerates MANIFEST.json from the table below (developer tool, not run by checks)."""
import json, os
HERE = os.path.dirname(os.path.dirname(os.path.abspath(__file__)))

CLAIMED = {}

# per-property entries live in manifest.d/Cnn.json: {"text","note","technique","design"[, "category"]}
import glob
for f in sorted(glob.glob(os.path.join(HERE, "manifest.d", "C*.json"))):
    CLAIMED[os.path.basename(f)[:-5]] = json.load(open(f))

PENDING_REASON = "check not built yet in this round; planned as Lean 4 proof + correspondence (DESIGN.md §7)"

def main():
    props = [json.loads(l)["id"] for l in open(os.path.join(HERE, "properties.jsonl"))]
    checks, na = [], []
    for pid in props:
        c = CLAIMED.get(pid)
        if not c:
            na.append({"property_id": pid, "reason": PENDING_REASON})
            continue
        checks.append({
            "property_id": pid,
            "quick_cmd": "./check %s --tier quick" % pid,
            "thorough_cmd": "./check %s --tier thorough" % pid,
            "evidence_file": "evidence/%s.json" % pid,
            "replay_cmd_template": "./check %s --replay {path}" % pid,
            "engine": "lean4-bacverif",
            "level_claimed": {"category": c.get("category", "proof"), "text": c["text"], "design_ref": c["design"]},
            "level_note": c["note"],
            "technique": c["technique"],
        })
    m = {
        "version": 1,
        "setup_cmd": "cd lean && lake build " + " ".join(
            "BacVerif.Props.%s BacVerif.Audit.%s drv_%s" % (p, p, p.lower()) for p in sorted(CLAIMED)),
        "hooks": {
            "guard": "JOELBENDER_BACPYPES_VERIF",
            "enable": "no source hooks are needed: the harness imports /repo/py34 directly, installs a virtual "
                      "clock by replacing bacpypes.task._time and injects faults by subclassing vlan.Network",
            "baseline_off_cmd": "cd /repo && PYTHONPATH=/repo/py34 /venv/bin/python -m pytest -ra -q -p no:cacheprovider "
                                "--timeout=900 --continue-on-collection-errors",
            "source_commits": [],
            "add_only": True,
        },
        "engines": [{
            "name": "lean4-bacverif",
            "path": "lean/",
            "serves_properties": sorted(CLAIMED),
            "kind_free_text": "Lean 4 models + theorems (lake project BacVerif), tables regenerated from /repo by "
                              "translator/, model drivers (lean_exe) compared with the real code by harness/",
        }],
        "checks": checks,
        "not_applicable": na,
        "notes": "All checks: ./check <id> [--tier quick|thorough] [--replay path]; exit 0 held, 1 violation, 2 infrastructure. "
                 "VERIF_SEED seeds every random choice. VERIF_REPO (default /repo) selects the tree under test.",
    }
    json.dump(m, open(os.path.join(HERE, "MANIFEST.json"), "w"), indent=1)
    print("claimed", sorted(CLAIMED), "pending", len(na))

if __name__ == "__main__":
    main()
