#!/bin/bash
# tools/reseed.sh <seed names like C11-6 ...> : re-run recorded seeded changes against the current checks
for name in "$@"; do
  prop=${name%%-*}; idx=${name##*-}
  d=/tmp/reseed.$$; rm -rf $d; mkdir -p $d/out/$idx
  cp /verif/seeded/$name/patch.diff /verif/seeded/$name/demo.py $d/out/$idx/
  python3 - "$name" "$d/out/$idx/meta.json" <<'PY'
import json,sys
m=json.load(open('/verif/seeded/%s/meta.json'%sys.argv[1]))
json.dump({k:m[k] for k in ('summary','needs','files','note') if k in m}, open(sys.argv[2],'w'))
PY
  python3 /verif/tools/seedall.py $prop $d quick 0 2>&1 | grep -v "^$"
  rm -rf $d
done
