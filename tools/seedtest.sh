#!/bin/bash
# tools/seedtest.sh <prop> <seed-dir with patch.diff demo.py> [tier]
# Confirms a seeded change independently in a scratch worktree (suite passes, demo fails with / passes
# without), then runs ./check <prop> against the patched scratch tree via VERIF_REPO. /repo is never touched.
set -u
PROP=$1; DIR=$(cd "$2" && pwd); TIER=${3:-quick}
WT=/tmp/seedwt/$PROP-$$
mkdir -p /tmp/seedwt
git -C /repo worktree add --detach "$WT" HEAD >/dev/null 2>&1 || { echo "worktree failed"; exit 2; }
cleanup() { git -C /repo worktree remove --force "$WT" >/dev/null 2>&1; }
trap cleanup EXIT
cd "$WT"
PYTHONPATH=$WT/py34 /venv/bin/python "$DIR/demo.py" >/dev/null 2>&1; D0=$?
git apply "$DIR/patch.diff" || { echo "patch does not apply"; exit 2; }
PYTHONPATH=$WT/py34 /venv/bin/python "$DIR/demo.py" >/dev/null 2>&1; D1=$?
SUITE=$(PYTHONPATH=$WT/py34 /venv/bin/python -m pytest -q -p no:cacheprovider -x tests 2>&1 | tail -1)
echo "demo unchanged rc=$D0  demo patched rc=$D1  suite: $SUITE"
cd /verif
VERIF_REPO=$WT ./check $PROP --tier $TIER 2>&1 | tail -4
echo "check rc=${PIPESTATUS[0]}"
