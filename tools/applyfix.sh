#!/bin/bash
# tools/applyfix.sh <patch file> <property> "<what failed>"   -- developer tool
# applies one repair to /repo as a single "fix:" commit after the full suite passes on the working tree
set -eu
P=$(cd "$(dirname "$1")" && pwd)/$(basename "$1"); PROP=$2; WHAT=$3
cd /repo
test -z "$(git status --porcelain)" || { echo "/repo not clean"; exit 2; }
git apply --index "$P"
OUT=$(PYTHONPATH=/repo/py34 /venv/bin/python -m pytest -q -p no:cacheprovider tests 2>&1 | tail -1)
echo "suite: $OUT"
case "$OUT" in *"405 passed"*) ;; *) echo "suite not green, reverting"; git reset -q --hard; exit 1;; esac
git commit -q -m "fix: $WHAT" -m "Property $PROP of the verification properties; repair proposed in /verif/fixes/$(basename "$P")."
H=$(git rev-parse --short HEAD)
python3 - "$PROP" "$H" "$WHAT" <<'PY'
import json,sys
p='/verif/known_findings.json'
d=json.load(open(p))
d.setdefault("fixed",[]).append("fixed: property=%s %s %s" % (sys.argv[1], sys.argv[2], sys.argv[3]))
json.dump(d,open(p,'w'),indent=1)
PY
echo "committed $H"
