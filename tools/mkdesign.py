#!/usr/bin/env python3
"""Regenerates the generated sections of DESIGN.md (between BEGIN/END GENERATED markers):
   repairs made (from known_findings.json) and seeded changes vs. checks (from seeded/*/meta.json)."""
import json, os, glob, re
HERE = os.path.dirname(os.path.dirname(os.path.abspath(__file__)))
kf = json.load(open(os.path.join(HERE, "known_findings.json")))
out = []
out.append("### 9a. Repairs committed in /repo (`fix:` commits; one per defect)\n")
out.append("Each was first reported by the named property's check on the unchanged tree with a concrete failing")
out.append("input (kept in `corpus/<id>/` and replayed first on every run, so the check fails again if the defect")
out.append("returns); the patch as proposed is in `fixes/`.\n")
out.append("| property | commit | what failed |")
out.append("|---|---|---|")
for line in kf.get("fixed", []):
    m = re.match(r"fixed: property=(\S+) (\S+) (.*)", line)
    if m:
        out.append("| %s | `%s` | %s |" % (m.group(1), m.group(2), m.group(3).replace("|", "/")))
out.append("")
out.append("### 9b. Known findings (recorded, not repaired)\n")
if kf.get("findings"):
    for f in kf["findings"]:
        out.append("* **%s** `%s` — %s (witness `%s`)" % (f["property"], f["id"], f["what"], f.get("witness")))
else:
    out.append("None: every genuine defect found so far had a small, safe repair.")
out.append("")
out.append("### 9c. Independently seeded changes and what caught them\n")
out.append("Each change was written by a fresh sub-agent that saw only the property text and a scratch worktree;")
out.append("confirmed by `tools/seedall.py` (demo passes on the unchanged tree and fails with the patch; the 405")
out.append("tests still pass with the patch), then `./check <id>` was run against the patched worktree.\n")
out.append("| seed | what it changes | needs | detected | failing input | first failure reported |")
out.append("|---|---|---|---|---|---|")
def keyf(p):
    b = os.path.basename(os.path.dirname(p)); m = re.match(r"(C\d+)-(\d+)", b); return (m.group(1), int(m.group(2))) if m else (b, 0)
n = d = 0
for p in sorted(glob.glob(os.path.join(HERE, "seeded", "*", "meta.json")), key=keyf):
    m = json.load(open(p)); name = os.path.basename(os.path.dirname(p))
    det = m.get("detected", m.get("detected_by") is not None)
    wi = m.get("with_failing_input", True if m.get("detected_by") else None)
    ff = m.get("first_failure") or {}
    fk = ff.get("kind") or m.get("caught_by_stream") or ""
    n += 1; d += 1 if det else 0
    def cut(s, k=110):
        s = str(s or "").replace("|", "/").replace("\n", " "); return s if len(s) <= k else s[:k - 1] + "…"
    out.append("| %s | %s | %s | %s | %s | %s%s |" % (name, cut(m.get("summary"), 140), cut(m.get("needs"), 120),
               "yes" if det else "NO", "yes" if wi else "no", cut(fk, 60), (" — " + cut(m["note"], 160)) if m.get("note") else ""))
out.append("")
out.append("%d of %d seeded changes are detected by the quick tier." % (d, n))
text = "\n".join(out)
p = os.path.join(HERE, "DESIGN.md")
s = open(p).read()
B, E = "<!-- BEGIN GENERATED -->", "<!-- END GENERATED -->"
if B in s:
    s = s[:s.index(B) + len(B)] + "\n" + text + "\n" + s[s.index(E):]
else:
    marker = "---------------------------------------------------------------------------\n\n## 10. Cost"
    s = s.replace(marker, B + "\n" + text + "\n" + E + "\n\n" + marker)
open(p, "w").write(s)
print("ok", n, d)
