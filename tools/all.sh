#!/bin/bash
# tools/all.sh [quick|thorough] [ids...] : setup + every check of the manifest, one line each (developer tool)
cd "$(dirname "$0")/.." || exit 2
TIER=${1:-quick}; shift
IDS=${@:-$(python3 -c "import json;print(' '.join(c['property_id'] for c in json.load(open('MANIFEST.json'))['checks']))")}
SETUP=$(python3 -c "import json;print(json.load(open('MANIFEST.json'))['setup_cmd'])")
( eval "$SETUP" ) >/tmp/all_setup.log 2>&1 || { echo "SETUP FAILED"; tail -20 /tmp/all_setup.log; }
for p in $IDS; do
  s=$(date +%s)
  out=$(./check $p --tier $TIER 2>&1; echo "__rc=$?")
  rc=${out##*__rc=}; out=$(echo "${out%__rc=*}" | tail -3 | tr '\n' ' ')
  echo "$p rc=$rc wall=$(( $(date +%s) - s ))s :: $out"
done
