#!/usr/bin/env python3
"""tools/mkseedtask.py <wave> <ids...> : creates /tmp/seed<wave>/<id> worktrees of /repo HEAD with a TASK.md that
contains ONLY the property text (+ one-line summaries of changes already tried, to avoid duplicates)."""
import json, subprocess, os, sys, glob
wave = sys.argv[1]
props = {json.loads(l)['id']: json.loads(l) for l in open('/verif/properties.jsonl')}
for pid in sys.argv[2:]:
    wt = "/tmp/seed%s/%s" % (wave, pid)
    os.makedirs(os.path.dirname(wt), exist_ok=True)
    if not os.path.exists(wt):
        subprocess.run(["git", "-C", "/repo", "worktree", "add", "--detach", wt, "HEAD"], check=True, capture_output=True)
    p = props[pid]
    extra = ""
    if wave.isdigit() and int(wave) >= 4:
        extra = ("For this round, at least ONE of your three changes must be made OUTSIDE the files listed under "
                 "'Relevant code' — in a shared module the property depends on indirectly (for example comm.py, task.py, "
                 "core.py, pdu.py, iocb.py, capability.py, singleton.py, object.py, constructeddata.py, primitivedata.py, "
                 "errors.py, vlan.py, netservice.py, appservice.py, app.py — whichever are not already listed) — such that "
                 "THIS property breaks while the change looks unrelated to it; and at least one must only manifest after a "
                 "LONG or UNUSUAL history (many operations, wrap-arounds, reuse after completion, objects reused across "
                 "calls, a second instance in the same process).\n\n")
    if wave.isdigit() and int(wave) >= 5:
        extra += ("Additionally for this round: at least ONE of your three changes must only affect a NON-DEFAULT BUT "
                  "SUPPORTED way of using the library that is still within the property's scope — a different public entry "
                  "point or constructor form reaching the same mechanism, a subclass or mix-in of the classes involved, a "
                  "different but legal configuration value, calls made from inside callbacks, the py34 code path reached "
                  "through another module of the stack (e.g. the same codec used by a service layer, a router, a BBMD, "
                  "an application service) — while the most obvious direct use keeps working. Avoid the mechanisms in the "
                  "already-tried list below (shared empty buffers, memoised hashes, heap sift variants, counter wraps at "
                  "2^8/2^16 have been done); look for NEW mechanisms.\n\n")
    if wave.isdigit() and int(wave) >= 6:
        extra += ("And for this round: at least ONE of your three changes must only manifest on an ERROR or RECOVERY path "
                  "(an exception raised by an application callback or handler, a refused/failed operation followed by a "
                  "valid one on the same objects, a timeout followed by a late arrival, cleanup after an abort) or under a "
                  "NON-DEFAULT GLOBAL SETTING / ENVIRONMENT that the library supports (bacpypes.settings flags such as "
                  "route_aware, module debugging switched on via the `_debug` flags / bacpypes_debugging loggers, a "
                  "non-UTC time zone, python -O) while the default path keeps working.\n\n")
    tried = []
    for m in sorted(glob.glob("/verif/seeded/%s-*/meta.json" % pid)):
        tried.append("- " + str(json.load(open(m)).get("summary", "")).replace("\n", " ")[:300])
    open(wt + "/TASK.md", "w").write(f"""# Task

You are testing how well a (hidden) verification suite detects subtle regressions in the Python library
JoelBender/bacpypes (a BACnet protocol stack). You have your own scratch git worktree of the repository at
{wt} (detached HEAD). Work ONLY inside {wt} — never touch /repo or /verif, and do not read anything under
/verif. The code Python 3 runs is {wt}/py34/bacpypes. The existing test suite is run with:

    cd {wt} && PYTHONPATH={wt}/py34 /venv/bin/python -m pytest -q -p no:cacheprovider tests

(405 tests pass on the unchanged tree; note the PYTHONPATH — without it an installed copy is imported
instead of your worktree.)

## The property under test (this is ALL you are told about what should hold)

**{p['title']}**

{p['statement']}

Scope of the quantifier: {p['quantifier']['text']}

Relevant code: {', '.join(p['anchors']['files'])}

## What to produce

THREE different, independent code changes (each a separate patch against the unchanged tree) that each BREAK
this property while the library still imports and the existing 405 tests still pass. Prefer changes that need
something specific to manifest — an unusual input, a particular boundary, a particular interleaving or
multi-step sequence of operations, a fault at a particular point, or TWO COOPERATING SITES that each look fine
alone (at least one of your three should be of that two-site kind, or depend on state left behind by an earlier
operation) — NOT ones that any ordinary use would expose immediately. Make them look like plausible
refactorings/optimisations or honest mistakes a maintainer could make. Make the three changes differ in kind
(different clauses of the property, different functions).

{extra}Changes ALREADY tried by others — do NOT repeat these or close variants; find different code paths, clauses,
boundaries and mechanisms:
{chr(10).join(tried) if tried else '- (none yet)'}

For each change i = 1..3 deliver, in {wt}/out/<i>/ :
  * patch.diff — `git diff` of the change against the unchanged tree (only files under py34/bacpypes)
  * demo.py — a small standalone program (run as `PYTHONPATH=<tree>/py34 /venv/bin/python demo.py`) that exits 0
    on the unchanged tree and exits non-zero (with a short message) on the changed tree, demonstrating the
    property violation through the library's public behaviour (tests/ has helpers showing how to build
    stacks on a virtual LAN with a virtual clock if you need them; keep the demo standalone)
  * meta.json — {{"property": "{pid}", "summary": "...", "needs": "what specific input/sequence is needed for it
    to manifest", "files": [...]}}

Verify for each: (a) apply the patch to a clean tree (`git -C {wt} checkout -- . && git -C {wt} apply
out/<i>/patch.diff`), (b) the full test suite still passes (405 passed), (c) demo.py fails with the patch and
passes without. Leave the worktree clean (`git checkout -- .`) at the end, keeping only the out/ directory
(and this TASK.md). Report briefly what the three changes are.
""")
    print(wt)
