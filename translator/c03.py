"""
translator/c03.py — wire schemas of the tree under test -> lean/BacVerif/Gen/Schemas.lean

Walks the LIVE class objects of bacpypes (sequenceElements / choiceElements /
SequenceOf-ListOf-ArrayOf factory classes with subtype and fixed length / the
four service registries of apdu.py).  Nothing is parsed from source text, so a
behaviour-preserving change of how a table is written yields the same output.

Two uses, one walker:
  * as a script (run in a SUBPROCESS by harness/c03.py:GENERATED, with the tree
    under test first on sys.path) it renders the environment as Lean source —
    deterministic (sorted, topologically ranked), write-if-changed;
  * imported by the harness (`walk()`), it gives the schema-directed value
    generator the very same tables together with the live classes.

Type kinds (what Sequence.decode / Choice.decode dispatch on):
  prim app       Atomic subclass with `_app_tag`            (leaf, inlined into the reference)
  anyAtomic      AnyAtomic                                   (leaf, inlined)
  any            Any, SequenceOfAny  (same encode/decode)
  seq            Sequence subclass using the generic Sequence.encode/decode
  choice         Choice subclass using the generic Choice.encode/decode
  list           a class made by SequenceOf / ListOf / ArrayOf (lk = seqof|listof|arrayof, fixed length)
  nameValue      basetypes.NameValue, the one hand-written codec of the tree
A constructed class that overrides encode/decode and is not NameValue makes the
translator FAIL (the generic model would silently not describe it).
"""
import sys, os, json, inspect, argparse

ABSTRACT = ("APCISequence", "ConfirmedRequestSequence", "ComplexAckSequence",
            "UnconfirmedRequestSequence", "ErrorSequence")
REGISTRIES = ("confirmed_request_types", "complex_ack_types", "unconfirmed_request_types", "error_types")
REG_SHORT = {"confirmed_request_types": "confirmed", "complex_ack_types": "complexAck",
             "unconfirmed_request_types": "unconfirmed", "error_types": "error"}
REG_BASE = {"confirmed_request_types": "ConfirmedRequestSequence", "complex_ack_types": "ComplexAckSequence",
            "unconfirmed_request_types": "UnconfirmedRequestSequence", "error_types": "ErrorSequence"}


class SchemaError(Exception):
    pass


class Node:
    """one constructed type of the environment"""
    __slots__ = ("name", "k", "cls", "classes", "fields", "elem", "lk", "fixed", "idx", "rank", "pdu", "dt", "apci")

    def __init__(self, name, k, cls):
        self.name, self.k, self.cls = name, k, cls
        self.classes = [cls]
        self.fields = []      # seq / choice: list of Fld
        self.elem = None      # list: Ref
        self.lk = None
        self.fixed = None
        self.idx = None
        self.rank = None
        self.pdu = None       # registry short name for registered PDUs
        self.dt = None        # nameValue: Ref to DateTime
        self.apci = False     # subclass of APCISequence (encode/decode take an APDU, trailing tags rejected)


class Ref:
    __slots__ = ("k", "app", "cls", "node")

    def __init__(self, k, app=None, cls=None, node=None):
        self.k, self.app, self.cls, self.node = k, app, cls, node

    def js(self):
        if self.k == "prim":
            return {"k": "prim", "app": self.app, "cls": self.cls.__name__}
        if self.k == "anyAtomic":
            return {"k": "anyAtomic"}
        return {"k": "ty", "i": self.node.idx}

    def lean(self):
        if self.k == "prim":
            return ".prim %d" % self.app
        if self.k == "anyAtomic":
            return ".anyAtomic"
        return ".ty %d" % self.node.idx


class Fld:
    __slots__ = ("name", "ref", "ctx", "opt")

    def __init__(self, name, ref, ctx, opt):
        self.name, self.ref, self.ctx, self.opt = name, ref, ctx, opt


class Schema:
    def __init__(self):
        self.nodes = []          # in environment order
        self.by_key = {}
        self.registries = {}     # short name -> sorted list of (choice, node)
        self.by_cls = {}         # live class -> node

    def to_json(self):
        out = {"types": [], "registries": {}}
        for n in self.nodes:
            d = {"i": n.idx, "name": n.name, "k": n.k}
            if n.k in ("seq", "choice"):
                d["fields"] = [{"name": f.name, "ref": f.ref.js(), "ctx": f.ctx, "opt": bool(f.opt)} for f in n.fields]
            if n.k == "list":
                d["lk"], d["elem"], d["fixed"] = n.lk, n.elem.js(), n.fixed
            if n.k == "nameValue":
                d["dt"] = n.dt.node.idx
            if n.pdu:
                d["pdu"] = n.pdu
            out["types"].append(d)
        for r, lst in sorted(self.registries.items()):
            out["registries"][r] = [[c, n.idx] for c, n in lst]
        return out


def walk(roots=None):
    """introspect the bacpypes that `import bacpypes` resolves to (the caller
    arranges sys.path); returns a Schema with live classes attached.
    roots=None: every constructed class of basetypes / apdu, every factory class
    and the registries; otherwise only the given classes and what they refer to
    (used by the harness for synthetic schemas)"""
    import bacpypes  # noqa: F401  (imports every submodule, so every factory class exists)
    from bacpypes import constructeddata as cd, basetypes as bt, apdu, primitivedata as pd

    generic = {
        "seq": (cd.Sequence.__dict__["encode"], cd.Sequence.__dict__["decode"]),
        "choice": (cd.Choice.__dict__["encode"], cd.Choice.__dict__["decode"]),
        "any": (cd.Any.__dict__["encode"], cd.Any.__dict__["decode"]),
    }
    apci_enc = apdu.APCISequence.__dict__["encode"], apdu.APCISequence.__dict__["decode"]
    abstract = set(getattr(apdu, a) for a in ABSTRACT)

    def resolved(cls, meth, stop):
        """the function `cls.meth` resolves to (first hit in the MRO).  For the
        PDU classes that must be APCISequence's wrapper, which copies the header
        and calls Sequence.encode/decode explicitly (+ trailing-tag rejection);
        the wrapper is then looked through."""
        for c in cls.__mro__:
            if meth in c.__dict__:
                f = c.__dict__[meth]
                if c is apdu.APCISequence:
                    return generic["seq"][0 if meth == "encode" else 1]
                return f
        raise SchemaError("%s has no %s" % (cls, meth))

    sch = Schema()
    pending = {}

    def kind_of(cls):
        if cls in cd._sequence_of_classes:
            return "list", "seqof"
        if cls in cd._list_of_classes:
            return "list", "listof"
        if cls in cd._array_of_classes:
            return "list", "arrayof"
        if issubclass(cls, cd.AnyAtomic):
            return "anyAtomic", None
        if issubclass(cls, pd.Atomic):
            return "prim", None
        if issubclass(cls, cd.Any):
            return "any", None
        if issubclass(cls, cd.Sequence):
            return "seq", None
        if issubclass(cls, cd.Choice):
            return "choice", None
        raise SchemaError("class %r is of no known wire kind" % (cls,))

    def key_of(cls):
        k, lk = kind_of(cls)
        if k == "list":
            return (k, lk, cls.subtype.__module__, cls.subtype.__name__,
                    -1 if getattr(cls, "fixed_length", None) is None else cls.fixed_length)
        if k == "any":
            return (k,)      # Any and SequenceOfAny share one codec
        return (k, cls.__module__, cls.__name__)

    def ref_of(cls):
        k, _ = kind_of(cls)
        if k == "prim":
            app = cls._app_tag
            if not isinstance(app, int) or not (0 <= app <= 12):
                raise SchemaError("atomic class %s without application tag" % cls.__name__)
            return Ref("prim", app=app, cls=cls)
        if k == "anyAtomic":
            return Ref("anyAtomic", cls=cls)
        return Ref("ty", node=node_of(cls), cls=cls)

    def node_of(cls):
        key = key_of(cls)
        if key in sch.by_key:
            n = sch.by_key[key]
            if cls not in n.classes:
                n.classes.append(cls)
            sch.by_cls[cls] = n
            return n
        if key in pending:
            raise SchemaError("cyclic type reference through %s" % cls.__name__)
        pending[key] = True
        k, lk = kind_of(cls)
        n = Node(cls.__name__, k, cls)
        if k == "list":
            n.lk = lk
            n.fixed = getattr(cls, "fixed_length", None)
            n.elem = ref_of(cls.subtype)
            n.name = cls.__name__ + ("[%d]" % n.fixed if n.fixed is not None else "")
        elif k == "any":
            n.name = "Any"
            if resolved(cls, "encode", None) is not generic["any"][0] or \
               resolved(cls, "decode", None) is not generic["any"][1]:
                raise SchemaError("%s overrides Any.encode/decode" % cls.__name__)
        elif k in ("seq", "choice"):
            enc, dec = resolved(cls, "encode", None), resolved(cls, "decode", None)
            if (enc, dec) != generic[k]:
                if cls is bt.NameValue:
                    n.k = "nameValue"
                    n.dt = ref_of(bt.DateTime)
                else:
                    raise SchemaError("%s has a hand-written encode/decode the model does not describe"
                                      % cls.__name__)
            if n.k != "nameValue":
                elements = cls.sequenceElements if k == "seq" else cls.choiceElements
                for e in elements:
                    # NB: the RANGE of a context number (<= 254) is not checked here: it is a
                    # clause of WFEnv, so a wrong number breaks `gen_env_wf`, not the translator
                    if e.context is not None and not (isinstance(e.context, int) and e.context >= 0):
                        raise SchemaError("%s.%s: context %r" % (cls.__name__, e.name, e.context))
                    n.fields.append(Fld(e.name, ref_of(e.klass), e.context, bool(e.optional)))
        n.apci = k == "seq" and issubclass(cls, apdu.APCISequence)
        del pending[key]
        sch.by_key[key] = n
        sch.by_cls[cls] = n
        return n

    # roots: every constructed class defined in basetypes / apdu, every factory class, Any
    explicit = roots is not None
    roots = list(roots) if explicit else []
    for mod in (() if explicit else (bt, apdu)):
        for name, o in sorted(vars(mod).items()):
            if inspect.isclass(o) and o.__module__ == mod.__name__ and o not in abstract \
                    and issubclass(o, (cd.Sequence, cd.Choice)):
                roots.append(o)
    if not explicit:
        for reg in (cd._sequence_of_classes, cd._list_of_classes, cd._array_of_classes):
            roots.extend(sorted(reg, key=lambda c: key_of(c)))
        roots.extend([cd.Any, cd.SequenceOfAny])
        for r in REGISTRIES:
            roots.extend(c for _, c in sorted(getattr(apdu, r).items()))
    for c in roots:
        node_of(c)

    # rank = 1 + max rank of referenced nodes; order by (rank, name, key)
    def refs(n):
        out = [f.ref for f in n.fields]
        if n.elem is not None:
            out.append(n.elem)
        if n.dt is not None:
            out.append(n.dt)
        return [r.node for r in out if r.k == "ty"]

    def rank(n):
        if n.rank is None:
            n.rank = 1 + max([rank(m) for m in refs(n)] + [0])
        return n.rank
    items = sorted(sch.by_key.items(), key=lambda kv: (rank(kv[1]), kv[1].name, kv[0]))
    sch.nodes = [n for _, n in items]
    names = {}
    for i, n in enumerate(sch.nodes):
        n.idx = i
        if n.name in names:       # same class name in two modules
            n.name = "%s.%s" % (n.cls.__module__.split(".")[-1], n.name)
        if n.name in names:
            raise SchemaError("duplicate type name %s" % n.name)
        names[n.name] = n

    # registries
    for r in (() if explicit else REGISTRIES):
        lst = []
        base = getattr(apdu, REG_BASE[r])
        for choice, cls in sorted(getattr(apdu, r).items()):
            if not (isinstance(choice, int) and 0 <= choice <= 255):
                raise SchemaError("%s: service choice %r" % (r, choice))
            if not issubclass(cls, base):
                raise SchemaError("%s[%d] = %s is not a %s" % (r, choice, cls.__name__, REG_BASE[r]))
            n = sch.by_cls[cls]
            if n.k != "seq":
                raise SchemaError("%s[%d] is not a sequence" % (r, choice))
            n.pdu = REG_SHORT[r]
            lst.append((choice, n))
        sch.registries[REG_SHORT[r]] = lst
    return sch


# --------------------------------------------------------------------------
# first / nullable / follow table
#
# Mirrors `infoOf` of lean/BacVerif/Model/SchemaWF.lean.  The table is only a
# CERTIFICATE: `wfEnv env info` re-computes every entry in Lean
# (`look I τ == infoOf env I d`) and the kernel checks the equality, so a
# mistake here makes `gen_env_wf` fail, it cannot make it pass.  (Letting the
# kernel build the table itself with `mkInfo` takes 15 minutes.)

ANYTAG, ANYAPP = ("anyTag",), ("anyApp",)
BAD_INFO = {"first": [], "nullable": False, "confus": [ANYTAG], "ff": False}


def _kind(ref):
    """kindOf: prim / anyAtomic / seqOf / listOf / struct"""
    if ref.k != "ty":
        return ref.k
    n = ref.node
    if n.k == "list" and n.lk == "seqof":
        return "seqOf"
    if n.k == "list" and n.lk == "listof":
        return "listOf"
    return "struct"


def info_table(sch):
    I = []

    def look(ref):
        j = ref.node.idx
        return I[j] if j < len(I) else BAD_INFO

    def field_first(f):
        k = _kind(f.ref)
        if k == "prim":
            return [("ctx", f.ctx)] if f.ctx is not None else [("app", f.ref.app)]
        if k == "anyAtomic":
            return [ANYAPP]
        if f.ctx is not None:
            return [("opening", f.ctx)]
        return list(look(f.ref)["first"])

    def field_nullable(f):
        if f.opt:
            return True
        if _kind(f.ref) in ("seqOf", "listOf", "struct") and f.ctx is None:
            return look(f.ref)["nullable"]
        return False

    def field_confus(f):
        k = _kind(f.ref)
        if k == "seqOf" and f.ctx is not None:
            return [ANYTAG] if f.opt else []
        if k in ("seqOf", "listOf", "struct") and f.ctx is None:
            return (list(look(f.ref)["first"]) if f.opt else []) + list(look(f.ref)["confus"])
        return field_first(f) if f.opt else []

    def field_ff(f):
        if f.opt:
            return False
        k = _kind(f.ref)
        if k == "prim":
            return f.ctx is not None
        if k in ("listOf", "struct") and f.ctx is not None:
            return True
        if k == "struct" and f.ctx is None:
            return look(f.ref)["ff"]
        return False

    def first_fields(fs):
        out = []
        for f in fs:
            out += field_first(f)
            if not field_nullable(f):
                break
        return out

    def confus_fields(fs):
        out = []
        for i, f in enumerate(fs):
            if all(field_nullable(g) for g in fs[i + 1:]):
                out += field_confus(f)
        return out

    for n in sch.nodes:
        if n.k == "seq":
            inf = {"first": first_fields(n.fields), "nullable": all(field_nullable(f) for f in n.fields),
                   "confus": confus_fields(n.fields), "ff": field_ff(n.fields[0]) if n.fields else False}
        elif n.k == "choice":
            inf = {"first": [p for f in n.fields for p in field_first(f)], "nullable": False, "confus": [],
                   "ff": True}
        elif n.k == "list":
            k = _kind(n.elem)
            first = [("app", n.elem.app)] if k == "prim" else [ANYAPP] if k == "anyAtomic" else list(look(n.elem)["first"])
            inf = {"first": first, "nullable": not (n.fixed is not None and n.fixed > 0), "confus": [ANYTAG], "ff": False}
        elif n.k == "any":
            inf = {"first": [ANYTAG], "nullable": True, "confus": [ANYTAG], "ff": False}
        elif n.k == "nameValue":
            inf = {"first": [("ctx", 0)], "nullable": False, "confus": [ANYAPP], "ff": False}
        else:
            raise SchemaError(n.k)
        I.append(inf)
    return I


def lean_pat(p):
    return ".%s" % p[0] if len(p) == 1 else ".%s %d" % p


def lean_info(inf):
    return "⟨[%s], %s, [%s], %s⟩" % (", ".join(lean_pat(p) for p in inf["first"]),
                                     "true" if inf["nullable"] else "false",
                                     ", ".join(lean_pat(p) for p in inf["confus"]),
                                     "true" if inf["ff"] else "false")


# --------------------------------------------------------------------------
# Lean rendering


def lean_opt(x):
    return "none" if x is None else "(some %d)" % x


def lean_field(f):
    return "⟨%s, %s, %s⟩" % (f.ref.lean(), lean_opt(f.ctx), "true" if f.opt else "false")


def to_lean(sch):
    L = []
    L.append("/-")
    L.append("  GENERATED by translator/c03.py from the live classes of the tree under test")
    L.append("  (sequenceElements / choiceElements / SequenceOf-ListOf-ArrayOf factories /")
    L.append("  service registries of py34/bacpypes).  DO NOT EDIT — regenerated on every run.")
    L.append("-/")
    L.append("import BacVerif.Model.SchemaWF")
    L.append("namespace BacVerif.Gen.Schemas")
    L.append("open BacVerif.Schema BacVerif.SchemaWF")
    L.append("")
    L.append("def env : Array TyDef := #[")
    rows = []
    for n in sch.nodes:
        if n.k in ("seq", "choice"):
            body = ".%s [%s]" % (n.k, ", ".join(lean_field(f) for f in n.fields))
        elif n.k == "list":
            body = ".list .%s (%s) %s" % (n.lk, n.elem.lean(), lean_opt(n.fixed))
        elif n.k == "any":
            body = ".any"
        elif n.k == "nameValue":
            body = ".nameValue %d" % n.dt.node.idx
        else:
            raise SchemaError(n.k)
        rows.append("  /- %3d %s -/ %s" % (n.idx, n.name, body))
    L.append(",\n".join(rows))
    L.append("]")
    L.append("")
    L.append("/-- first / nullable / follow / fails-fast per type: a certificate that")
    L.append("    `wfEnv env info` re-checks entry by entry against `infoOf` -/")
    L.append("def info : Table := #[")
    L.append(",\n".join("  /- %3d -/ %s" % (n.idx, lean_info(inf)) for n, inf in zip(sch.nodes, info_table(sch))))
    L.append("]")
    L.append("")
    L.append("/-- type names, same indexing as `env` (evidence only) -/")
    L.append("def names : Array String := #[")
    L.append(",\n".join("  \"%s\"" % n.name for n in sch.nodes))
    L.append("]")
    L.append("")
    for r in ("confirmed", "complexAck", "unconfirmed", "error"):
        L.append("/-- `apdu.%s`: (service choice, index into `env`) -/" % [k for k, v in REG_SHORT.items() if v == r][0])
        L.append("def %s : List (Nat × Nat) := [%s]" % (
            r, ", ".join("(%d, %d)" % (c, n.idx) for c, n in sch.registries[r])))
        L.append("")
    L.append("/-- every type that is a registered PDU, with its registry kind -/")
    L.append("def pduKinds : List (Nat × PduKind) := [%s]" % ", ".join(
        "(%d, .%s)" % (n.idx, n.pdu) for n in sch.nodes if n.pdu))
    L.append("")
    L.append("end BacVerif.Gen.Schemas")
    return "\n".join(L) + "\n"


def write_if_changed(path, text):
    try:
        if open(path, encoding="utf-8").read() == text:
            return False
    except OSError:
        pass
    os.makedirs(os.path.dirname(path), exist_ok=True)
    tmp = path + ".tmp"
    with open(tmp, "w", encoding="utf-8") as f:
        f.write(text)
    os.replace(tmp, path)
    return True


def main():
    ap = argparse.ArgumentParser()
    ap.add_argument("--repo", default=os.environ.get("VERIF_REPO", "/repo"))
    ap.add_argument("--out", default=None)
    ap.add_argument("--json", action="store_true")
    a = ap.parse_args()
    src = os.path.join(a.repo, "py34")
    sys.path.insert(0, src)
    import bacpypes
    if not bacpypes.__file__.startswith(src + os.sep):
        raise SystemExit("bacpypes resolves to %s, not %s" % (bacpypes.__file__, src))
    sch = walk()
    if a.json:
        json.dump(sch.to_json(), sys.stdout, indent=1, sort_keys=True)
        return
    out = a.out or os.path.join(os.path.dirname(os.path.dirname(os.path.abspath(__file__))),
                                "lean", "BacVerif", "Gen", "Schemas.lean")
    changed = write_if_changed(out, to_lean(sch))
    print("%s: %d types, %d registered PDUs%s" % (
        out, len(sch.nodes), sum(len(v) for v in sch.registries.values()), " (rewritten)" if changed else ""))


if __name__ == "__main__":
    main()
