"""
translator/c15.py — regenerate lean/BacVerif/Gen/Objects.lean from the LIVE
registry `bacpypes.object.registered_object_types` of the tree under test
(DESIGN.md §3.1, §7 C15).

Dumped by walking the live class objects (never the source text):
  * every registered object type (vendor 0): objectType number and the
    property table `cls._properties` in dictionary order (the order
    ReadPropertyMultiple's `all` walks), one descriptor per property:
      identifier number, rank of the identifier *name* (CurrentPropertyList
      sorts names), datatype (atomic tag + Unsigned limits / AnyAtomic /
      constructed class / ArrayOf(elem, fixed length, fix_length element) /
      ListOf(elem)), optional, mutable, serving Property class, default
  * the names of the constructed classes referenced (index = `ElemTy.cons`)
  * the enumeration numbers the model hard-codes (all / required / optional /
    propertyList / objectIdentifier / objectName / objectType / device /
    reject reasons / error codes): emitted as `decide`d equalities so a change
    of an enumeration breaks the build, not the model silently.

The same descriptors (as JSON) describe the harness's own classes
(`describe_class`), so generator, driver and table see one schema.

Deterministic output, written only when changed.  The caller must have bound
`bacpypes` to the tree under test (`harness.core.bind_repo()`).
"""
import os


class TranslatorError(Exception):
    pass


# ------------------------------------------------------------------ tags

def tags_of(value):
    """encode through the library: Any.cast_in -> [[cls,num,lvt,hex]]"""
    from bacpypes.constructeddata import Any
    a = Any()
    a.cast_in(value)
    return [[t.tagClass, t.tagNumber, t.tagLVT, bytes(t.tagData).hex()] for t in a.tagList]


def refusal_of_exception(e):
    """what a client sees when this exception escapes a handler"""
    from bacpypes.errors import RejectException, ExecutionError
    from bacpypes.apdu import RejectReason
    if isinstance(e, RejectException):
        return "reject:%d" % RejectReason.enumerations[e.rejectReason]
    if isinstance(e, ExecutionError):
        return "%s/%s" % (e.errorClass, e.errorCode)
    return "opProblem"


# ------------------------------------------------------------------ descriptors

class Schema:
    """walks live classes; collects the constructed classes it meets"""

    def __init__(self):
        self.cons = []          # class objects, index = ElemTy.cons
        self.cons_ix = {}

    def cons_index(self, klass):
        if klass not in self.cons_ix:
            self.cons_ix[klass] = len(self.cons)
            self.cons.append(klass)
        return self.cons_ix[klass]

    def elem(self, klass):
        from bacpypes.primitivedata import Atomic, Unsigned
        from bacpypes.constructeddata import AnyAtomic, Sequence, Choice
        if issubclass(klass, AnyAtomic):
            return {"k": "any"}
        if issubclass(klass, Atomic):
            tag = klass._app_tag
            if tag is None:
                raise TranslatorError("atomic class without application tag: %r" % klass)
            lo, hi = 0, None
            if issubclass(klass, Unsigned):
                lo, hi = klass._low_limit, klass._high_limit
            return {"k": "atomic", "tag": int(tag), "lo": int(lo), "hi": None if hi is None else int(hi),
                    "cls": klass.__name__}
        if issubclass(klass, (Sequence, Choice)):
            return {"k": "cons", "ty": self.cons_index(klass), "cls": klass.__name__}
        raise TranslatorError("unsupported element class %r" % klass)

    def item_of(self, make):
        try:
            return {"enc": tags_of(make())}
        except Exception as e:  # un-encodable default: the refusal a read gets
            return {"unenc": refusal_of_exception(e)}

    def fix_length_element(self, dt):
        """what ArrayOf.fix_length appends, as an encoded item"""
        from bacpypes.primitivedata import Atomic
        from copy import deepcopy
        sub = dt.subtype
        if issubclass(sub, Atomic):
            if dt.prototype is None:
                return self.item_of(lambda: sub(sub().value))
            return self.item_of(lambda: sub(dt.prototype))
        if dt.prototype is None:
            return self.item_of(lambda: sub())
        return self.item_of(lambda: deepcopy(dt.prototype))

    def datatype(self, dt):
        from bacpypes.constructeddata import Array, List
        if issubclass(dt, Array):
            return {"k": "array", "e": self.elem(dt.subtype),
                    "fixed": None if dt.fixed_length is None else int(dt.fixed_length),
                    "dflt": self.fix_length_element(dt)}
        if issubclass(dt, List):
            return {"k": "list", "e": self.elem(dt.subtype)}
        return {"k": "scalar", "e": self.elem(dt)}

    def custom(self, prop):
        import bacpypes.object as bo
        import bacpypes.local.object as lo
        import bacpypes.local.device as ld
        t = type(prop)
        if t in (bo.Property, bo.StandardProperty, bo.OptionalProperty, bo.ReadableProperty, bo.WritableProperty):
            return "std"
        if t is bo.ObjectIdentifierProperty:
            return "objId"
        if t is lo.CurrentPropertyList:
            return "propList"
        if t is lo.WriteableObjectName:
            return "wrName"
        if t in (ld.CurrentLocalDate, ld.CurrentLocalTime, ld.CurrentProtocolServicesSupported):
            return "computed"
        import bacpypes.service.cov as sc
        if t is sc.ActiveCOVSubscriptions:
            return "computed"
        raise TranslatorError("property class %s is not modelled" % t.__name__)

    def prop(self, prop):
        from bacpypes.basetypes import PropertyIdentifier
        ident = prop.identifier
        if ident not in PropertyIdentifier.enumerations:
            raise TranslatorError("non-standard property identifier %r" % (ident,))
        d = {"id": int(PropertyIdentifier.enumerations[ident]), "name": ident, "rank": name_rank()[ident],
             "dt": self.datatype(prop.datatype), "opt": bool(prop.optional), "mut": bool(prop.mutable),
             "custom": self.custom(prop), "dflt": None}
        if prop.default is not None and d["custom"] != "computed":
            dt = prop.datatype
            d["dflt"] = self.item_of(lambda: dt(prop.default))
        return d

    def describe_class(self, cls):
        """descriptors of cls._properties in dictionary order"""
        return [self.prop(p) for p in cls._properties.values()]


_RANK = None


def name_rank():
    global _RANK
    if _RANK is None:
        from bacpypes.basetypes import PropertyIdentifier
        _RANK = {n: i for i, n in enumerate(sorted(PropertyIdentifier.enumerations))}
    return _RANK


def tables():
    """the live registry as plain data: (schema, [(type name, number, [desc])])"""
    import bacpypes.object as bo
    from bacpypes.primitivedata import ObjectType
    sch = Schema()
    rows = []
    for (ot, vid), cls in bo.registered_object_types.items():
        if vid != 0:
            continue
        if ot not in ObjectType.enumerations:
            raise TranslatorError("object type %r has no number" % (ot,))
        rows.append((str(ot), int(ObjectType.enumerations[ot]), cls.__name__, sch.describe_class(cls)))
    rows.sort(key=lambda r: r[1])
    return sch, rows


# ------------------------------------------------------------------ Lean rendering

def lean_refusal(s):
    if s.startswith("reject:"):
        return "(.reject %d)" % int(s[7:])
    table = {"opProblem": ".opProblem", "object/unknownObject": ".unknownObject",
             "property/unknownProperty": ".unknownProperty"}
    if s not in table:
        raise TranslatorError("refusal %r not in the model" % s)
    return table[s]


def lean_hex(h):
    b = bytes.fromhex(h)
    return "[" + ", ".join(str(x) for x in b) + "]"


def lean_tag(t):
    cls = {0: ".app", 1: ".ctx", 2: ".opening", 3: ".closing"}[t[0]]
    return "⟨%s, %d, %d, %s⟩" % (cls, t[1], t[2], lean_hex(t[3]))


def lean_item(it):
    if "enc" in it:
        return "(.enc [" + ", ".join(lean_tag(t) for t in it["enc"]) + "])"
    return "(.unenc %s)" % lean_refusal(it["unenc"])


def lean_elem(e):
    if e["k"] == "any":
        return ".anyAtomic"
    if e["k"] == "atomic":
        hi = "none" if e["hi"] is None else "(some %d)" % e["hi"]
        return "(.atomic %d %d %s)" % (e["tag"], e["lo"], hi)
    return "(.cons %d)" % e["ty"]


def lean_dt(dt):
    if dt["k"] == "scalar":
        return "(.scalar %s)" % lean_elem(dt["e"])
    if dt["k"] == "list":
        return "(.listOf %s)" % lean_elem(dt["e"])
    fixed = "none" if dt["fixed"] is None else "(some %d)" % dt["fixed"]
    return "(.arrayOf %s %s %s)" % (lean_elem(dt["e"]), fixed, lean_item(dt["dflt"]))


def lean_bool(b):
    return "true" if b else "false"


def lean_prop(d):
    dflt = "none" if d["dflt"] is None else "(some %s)" % lean_item(d["dflt"])
    return "⟨%d, %d, %s, %s, %s, .%s, %s⟩" % (
        d["id"], d["rank"], lean_dt(d["dt"]), lean_bool(d["opt"]), lean_bool(d["mut"]), d["custom"], dflt)


def elem_comment(e):
    return "AnyAtomic" if e["k"] == "any" else e["cls"]


def dt_comment(dt):
    if dt["k"] == "scalar":
        return elem_comment(dt["e"])
    if dt["k"] == "list":
        return "ListOf(%s)" % elem_comment(dt["e"])
    return "ArrayOf(%s%s)" % (elem_comment(dt["e"]), "" if dt["fixed"] is None else ", %d" % dt["fixed"])


def render():
    from bacpypes.basetypes import PropertyIdentifier, ErrorClass, ErrorCode
    from bacpypes.primitivedata import ObjectType
    from bacpypes.apdu import RejectReason
    sch, rows = tables()
    out = []
    w = out.append
    w("/-")
    w("  GENERATED by translator/c15.py from the live registry of the tree under test")
    w("  (bacpypes.object.registered_object_types, vendor 0).  Do not edit.")
    w("  %d object types, %d property descriptors, %d constructed classes." % (
        len(rows), sum(len(r[3]) for r in rows), len(sch.cons)))
    w("-/")
    w("import BacVerif.Model.Object")
    w("namespace BacVerif.Gen.Objects")
    w("open BacVerif BacVerif.Obj")
    w("")
    w("set_option maxRecDepth 100000")
    w("")
    w("/-- constructed classes referenced by the tables; index = `ElemTy.cons` -/")
    w("def consNames : List String := [")
    for i, k in enumerate(sch.cons):
        w("  \"%s\"%s" % (k.__name__, "," if i + 1 < len(sch.cons) else ""))
    w("]")
    w("")
    names = []
    for ot, num, clsname, props in rows:
        nm = "t_" + ot
        names.append(nm)
        w("/-- %s (%s), objectType %d -/" % (clsname, ot, num))
        w("def %s : ObjType := ⟨%d, [" % (nm, num))
        for i, d in enumerate(props):
            w("  %s%s  -- %s : %s" % (lean_prop(d), "," if i + 1 < len(props) else " ", d["name"], dt_comment(d["dt"])))
        w("]⟩")
        w("")
    w("/-- the registry, sorted by objectType number -/")
    w("def objectTypes : List ObjType := [" + ", ".join(names) + "]")
    w("")
    w("/-! the enumeration numbers the model and the driver rely on, as the live tables give them -/")
    pe = PropertyIdentifier.enumerations
    consts = [("pidAll", pe["all"]), ("pidOptional", pe["optional"]), ("pidRequired", pe["required"]),
              ("pidPropertyList", pe["propertyList"]), ("pidObjectIdentifier", pe["objectIdentifier"]),
              ("pidObjectName", pe["objectName"]), ("pidObjectType", pe["objectType"]),
              ("otDevice", ObjectType.enumerations["device"]),
              ("rejInvalidParameterDatatype", RejectReason.enumerations["invalidParameterDatatype"]),
              ("rejInvalidTag", RejectReason.enumerations["invalidTag"])]
    w("theorem consts_ok : " + " ∧ ".join("%s = %d" % (n, v) for n, v in consts) + " := by decide")
    w("")
    w("/-- (error class, error code) numbers of the refusals, for the driver's replies -/")
    ec, ek = ErrorClass.enumerations, ErrorCode.enumerations
    pairs = [("unknownObject", "object", "unknownObject"), ("unknownProperty", "property", "unknownProperty"),
             ("notAnArray", "property", "propertyIsNotAnArray"), ("invalidArrayIndex", "property", "invalidArrayIndex"),
             ("writeAccessDenied", "property", "writeAccessDenied"), ("valueOutOfRange", "property", "valueOutOfRange"),
             ("duplicateName", "property", "duplicateName"), ("opProblem", "device", "operationalProblem")]
    w("def errorNumbers : Refusal → Option (Nat × Nat)")
    for n, c, k in pairs:
        w("  | .%s => some (%d, %d)  -- %s / %s" % (n, ec[c], ek[k], c, k))
    w("  | .reject _ => none")
    w("")
    w("end BacVerif.Gen.Objects")
    return "\n".join(out) + "\n"


def generate(lean_dir=None):
    """write Gen/Objects.lean if it changed; returns True when rewritten"""
    here = os.path.dirname(os.path.dirname(os.path.abspath(__file__)))
    lean_dir = lean_dir or os.path.join(here, "lean")
    path = os.path.join(lean_dir, "BacVerif", "Gen", "Objects.lean")
    text = render()
    old = None
    if os.path.exists(path):
        with open(path, encoding="utf-8") as f:
            old = f.read()
    if old == text:
        return False
    os.makedirs(os.path.dirname(path), exist_ok=True)
    tmp = path + ".tmp%d" % os.getpid()
    with open(tmp, "w", encoding="utf-8") as f:
        f.write(text)
    os.replace(tmp, path)
    return True


if __name__ == "__main__":
    import sys
    sys.path.insert(0, os.path.dirname(os.path.dirname(os.path.abspath(__file__))))
    from harness import core
    core.bind_repo()
    print("rewritten" if generate() else "unchanged")
